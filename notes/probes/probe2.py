import petl as etl, functools, collections, tempfile
from hypothesis import given, settings, strategies as st, HealthCheck
from probe_join import cmpv, keyv, val
import functools
ck=functools.cmp_to_key(cmpv)
def ms(rows): return collections.Counter(map(tuple,rows))
cell = st.one_of(st.none(), st.integers(0,2), st.sampled_from(['a','b',1.0,True,b'a']))
def rect(n, maxrows=6): return st.lists(st.lists(cell,min_size=n,max_size=n),max_size=maxrows).map(lambda rs:[['f%d'%i for i in range(n)]]+rs)
def ragged(n, maxrows=7): return st.lists(st.lists(cell,min_size=0,max_size=n+1),max_size=maxrows).map(lambda rs:[['f%d'%i for i in range(n)]]+rs)
td=tempfile.mkdtemp()
# SORT
@settings(max_examples=3000, deadline=None, database=None, suppress_health_check=list(HealthCheck))
@given(ragged(3), st.sampled_from([None,'f0',('f1','f0'),2,('f2',)]), st.booleans(), st.integers(1,9), st.booleans())
def tsort(t,key,rev,bs,cache):
    n=3
    if key is None: idx=[0,1,2]
    elif isinstance(key,tuple): idx=[int(k[1]) if isinstance(k,str) else k for k in key]
    else: idx=[int(key[1]) if isinstance(key,str) else key]
    def gk(r):
        vals=[r[i] if i<len(r) else None for i in idx]
        return vals[0] if len(vals)==1 else tuple(vals)
    rows=t[1:]
    exp=sorted(rows,key=lambda r: ck(gk(r)),reverse=rev)
    # python sorted with reverse keeps stability
    v=etl.sort(t,key,reverse=rev,buffersize=bs,tempdir=td,cache=cache)
    for p in range(2):
        got=list(v)
        assert got[0]==tuple(t[0])
        assert [tuple(r) for r in exp]==got[1:],(t,key,rev,bs,cache,p,got[1:],exp)
# SETOPS
@settings(max_examples=3000, deadline=None, database=None, suppress_health_check=list(HealthCheck))
@given(rect(2),rect(2),st.booleans(),st.sampled_from([None,1,2]))
def tset(a,b,strict,bs):
    A=[tuple(r) for r in a[1:]]; B=[tuple(r) for r in b[1:]]
    ca,cb=collections.Counter(A),collections.Counter(B)
    comp = [r for r in A if r not in cb] if strict else list((ca-cb).elements())
    inter=list((ca&cb).elements())
    g=list(etl.complement(a,b,strict=strict,buffersize=bs,tempdir=td))[1:]
    assert ms(g)==ms(comp),(a,b,strict,g,comp)
    g2=list(etl.intersection(a,b,buffersize=bs,tempdir=td))[1:]
    assert ms(g2)==ms(inter),(a,b,g2,inter)
    assert ms(list(etl.hashcomplement(a,b,strict=strict))[1:])==ms(comp)
    assert ms(list(etl.hashintersection(a,b))[1:])==ms(inter)
# DEDUP
@settings(max_examples=3000, deadline=None, database=None, suppress_health_check=list(HealthCheck))
@given(rect(3),st.sampled_from([None,'f0',('f0','f1')]),st.sampled_from([None,1,2]))
def tdedup(t,key,bs):
    idx=[0,1,2] if key is None else ([0] if key=='f0' else [0,1])
    gk=lambda r: tuple(r[i] for i in idx)
    rows=[tuple(r) for r in t[1:]]
    c=collections.Counter(gk(r) for r in rows)
    dup=[r for r in rows if c[gk(r)]>1]; uni=[r for r in rows if c[gk(r)]==1]
    assert ms(list(etl.duplicates(t,key,buffersize=bs,tempdir=td))[1:])==ms(dup),(t,key)
    assert ms(list(etl.unique(t,key,buffersize=bs,tempdir=td))[1:])==ms(uni),(t,key)
    d=list(etl.distinct(t,key,buffersize=bs,tempdir=td))[1:]
    assert len(d)==len(c) and len(set(gk(r) for r in d))==len(c),(t,key,d)
    if rows:
        dc=list(etl.distinct(t,key,count='n',buffersize=bs,tempdir=td))[1:]
        assert sum(r[-1] for r in dc)==len(rows),(t,key,dc)
        for r in dc: assert c[gk(r)]==r[-1],(t,key,dc)
for f in (tsort,tset,tdedup):
    try:
        f(); print(f.__name__,'ok')
    except Exception as e:
        print(f.__name__,'FAIL', repr(e)[:1500])
