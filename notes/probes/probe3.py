import petl as etl, functools, collections, tempfile
from hypothesis import given, settings, strategies as st, HealthCheck, assume
from probe_join import cmpv
ck=functools.cmp_to_key(cmpv)
from decimal import Decimal
cell = st.one_of(st.none(), st.integers(0,2), st.sampled_from(['a','b',1.0,True,b'a',Decimal(1)]))
names=['k1','k2','v1','v2','v3']
@settings(max_examples=3000, deadline=None, database=None, suppress_health_check=list(HealthCheck))
@given(st.permutations(names), st.lists(st.lists(cell,min_size=5,max_size=5),min_size=1,max_size=6), st.integers(1,2))
def tmelt(hdr, rows, nk):
    t=[list(hdr)]+rows
    keys=[n for n in hdr if n.startswith('k')][:nk]
    if nk==1: t=[list(r) for r in etl.cutout(t,'k2')]; keys=['k1']
    hdr=t[0]
    kidx=[hdr.index(k) for k in keys]
    kv=[tuple(r[i] for i in kidx) for r in t[1:]]
    assume(len(set(kv))==len(kv))
    key=keys if nk>1 else keys[0]
    m=etl.melt(t,key=key)
    rc=list(etl.recast(m,key=key))
    vars_=sorted(n for n in hdr if n not in keys)
    exp_hdr=tuple(keys)+tuple(vars_)
    exp=sorted([tuple(r[i] for i in kidx)+tuple(r[hdr.index(v)] for v in vars_) for r in t[1:]], key=lambda r: ck(r[:nk]))
    assert tuple(rc[0])==exp_hdr,(rc[0],exp_hdr)
    assert rc[1:]==exp,(t,key,rc[1:],exp)
    # melt count
    ml=list(m)
    assert len(ml)-1==len(t[1:])*len(vars_)
# aggregation
@settings(max_examples=3000, deadline=None, database=None, suppress_health_check=list(HealthCheck))
@given(st.lists(st.tuples(cell,cell,st.integers(0,5)).map(list),max_size=7), st.sampled_from(['k',('k','j')]), st.sampled_from([None,1,2,3]))
def tagg(rows,key,bs):
    t=[['k','j','v']]+[r+[i] for i,r in enumerate(rows)]
    t[0].append('id')
    kidx=[0] if key in ('k',('k',)) else [0,1]
    groups=collections.OrderedDict()
    def gk(r): 
        k=tuple(r[i] for i in kidx); return k
    keys=[]
    for r in t[1:]:
        k=gk(r)
        for kk in keys:
            if kk==k: groups[id(kk)][1].append(tuple(r)); break
        else:
            keys.append(k); groups[id(k)]=(k,[tuple(r)])
    gl=sorted(groups.values(), key=lambda g: ck(g[0] if len(kidx)>1 else g[0][0]))
    # whole-row list aggregation
    got=list(etl.aggregate(t,key,list,buffersize=bs))
    exp=[ (g[0] if len(kidx)>1 else (g[0][0],))+(g[1],) for g in gl]
    assert [tuple(r[:-1])+( [tuple(x) for x in r[-1]],) for r in got[1:]]==exp,(t,key,got,exp)
    got=list(etl.aggregate(t,key,len,buffersize=bs))[1:]
    assert sum(r[-1] for r in got)==len(rows)
    got=list(etl.aggregate(t,key,sum,'v',buffersize=bs))[1:]
    assert [r[-1] for r in got]==[sum(x[2] for x in g[1]) for g in gl]
    agg=collections.OrderedDict([('n',len),('s',('v',sum)),('ids',('id',list)),('rows',list)])
    got=list(etl.aggregate(t,key,agg,buffersize=bs))[1:]
    assert [r[-4] for r in got]==[len(g[1]) for g in gl]
    assert [r[-2] for r in got]==[[x[3] for x in g[1]] for g in gl],(t,key,got)
    # groupselect
    k1=key
    gf=list(etl.groupselectfirst(t,k1,buffersize=bs))[1:]
    assert gf==[g[1][0] for g in gl],(gf,gl)
    glast=list(etl.groupselectlast(t,k1,buffersize=bs))[1:]
    assert glast==[g[1][-1] for g in gl]
    gm=list(etl.groupselectmin(t,k1,'v',buffersize=bs))[1:]
    assert len(gm)==len(gl)
    for r,g in zip(gm,gl): assert r in g[1] and r[2]==min(x[2] for x in g[1]),(t,key,gm)
    gm=list(etl.groupselectmax(t,k1,'v',buffersize=bs))[1:]
    for r,g in zip(gm,gl): assert r in g[1] and r[2]==max(x[2] for x in g[1]),(t,key,gm)
    f=list(etl.fold(t,k1,lambda a,b:a+b,'v',buffersize=bs))[1:]
    assert [r[1] for r in f]==[sum(x[2] for x in g[1]) for g in gl]
for f in (tmelt,tagg):
    try:
        f(); print(f.__name__,'ok')
    except Exception as e:
        import traceback; traceback.print_exc(limit=3)
        print(f.__name__,'FAIL', repr(e)[:1500])
