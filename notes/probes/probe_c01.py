import sys, copy, itertools, collections, traceback
sys.path.insert(0,'/tmp/w')
from minicat import CAT
A=[['k','j','v','s'],[2,'b',1,'xa'],[1,'a',None,'bx'],[2,'a',3,'cxd'],[None,'c',2,'e'],[1,'a',1,'xa']]
B=[['k','j','v','s'],[1,'a',1,'xa'],[3,'z',5,'q'],[2,'a',3,'cxd'],[1,'q',0,'x']]
H=[['k','j','v','s']]
def build(name, srcs):
    n,f=CAT[name]
    return f(*[copy.deepcopy(s) for s in srcs[:n]])
def norm(r): return tuple(r) if isinstance(r,(list,tuple)) else r
bad=collections.OrderedDict()
# C20 probe
for name in CAT:
    n=CAT[name][0]
    for combo in itertools.product([0,1],repeat=n):
        if n and not any(combo): continue
        srcs=[H if c else s for c,s in zip(combo,[A,B])]
        try:
            list(build(name,srcs))
        except Exception as e:
            bad.setdefault(('C20',name,combo),'%s: %s'%(type(e).__name__,str(e)[:80]))
# C01 probe: all interleavings of two iterators + third
def schedules(L):
    # sequences over 'a','b','c' of bounded length with starts
    for pre in range(0,L+2):
        for inter in itertools.product('ab',repeat=min(L+2,5)):
            yield ('a',)*pre+inter
for name in CAT:
    try:
        solo=[norm(r) for r in build(name,[A,B])]
    except Exception as e:
        bad.setdefault(('C01-solo',name),'%s: %s'%(type(e).__name__,str(e)[:80])); continue
    L=len(solo)
    found=False
    for sched in schedules(L):
        v=build(name,[A,B])
        its={}; pos={}
        try:
            for s in sched:
                if s not in its: its[s]=iter(v); pos[s]=0
                try:
                    r=norm(next(its[s]))
                    exp=solo[pos[s]] if pos[s]<L else 'STOP'
                    if r!=exp: raise AssertionError('slot %s pos %d got %r exp %r'%(s,pos[s],r,exp))
                    pos[s]+=1
                except StopIteration:
                    if pos[s]!=L: raise AssertionError('early stop slot %s pos %d'%(s,pos[s]))
            fresh=[norm(r) for r in v]
            if fresh!=solo: raise AssertionError('fresh pass differs: %r vs %r'%(fresh[:6],solo[:6]))
        except Exception as e:
            bad.setdefault(('C01',name),'sched=%s %s: %s'%(''.join(sched),type(e).__name__,str(e)[:150])); found=True
        if found: break
for k,v in bad.items(): print(k,v)
print('entries',len(CAT))
