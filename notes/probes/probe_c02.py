import sys, itertools, io, os
sys.path.insert(0,'/tmp/w')
import petl as etl
from minicat import CAT
class Src(etl.Table):
    def __init__(self, rows): self.rows=rows; self.pulled=0; self.hdr=0
    def __iter__(self):
        self.hdr+=1
        yield tuple(self.rows[0])
        for r in self.rows[1:]:
            self.pulled+=1
            yield list(r)
A=[['k','j','v','s'],[2,'b',1,'xa'],[1,'a',None,'bx'],[2,'a',3,'cxd'],[None,'c',2,'e'],[1,'a',1,'xa']]
B=[['k','j','v','s'],[1,'a',1,'xa'],[3,'z',5,'q'],[2,'a',3,'cxd'],[1,'q',0,'x']]
for name,(n,f) in CAT.items():
    srcs=[Src(A),Src(B)][:n]
    try: v=f(*srcs)
    except Exception as e: print(name,'EXC',e); continue
    p=[s.pulled for s in srcs]
    if any(p): print('CONSTRUCTION PULLS', name, p, [s.hdr for s in srcs])
# byte counting
class CountFile(io.RawIOBase):
    def __init__(self,f,owner): self.f=f; self.o=owner
    def readable(self): return True
    def readinto(self,b):
        d=self.f.read(len(b)); b[:len(d)]=d; self.o.bytes+=len(d); return len(d)
    def seekable(self): return False
    def close(self): self.f.close(); super().close()
class BSrc:
    def __init__(self,path): self.path=path; self.bytes=0
    def open(self,mode='rb'):
        return io.BufferedReader(CountFile(open(self.path,'rb'),self))
os.makedirs('/tmp/w/io',exist_ok=True)
for n in (2000,200000):
    t=[['a','b']]+[[i,'x%d'%i] for i in range(n)]
    etl.tocsv(t,'/tmp/w/io/big.csv'); etl.topickle(t,'/tmp/w/io/big.p'); etl.tojson(t,'/tmp/w/io/big.jsonl',lines=True)
    etl.totext(t,'/tmp/w/io/big.txt',template='{a} {b}\n')
    for nm,mk in [('csv',lambda s: etl.fromcsv(s)),('pickle',lambda s: etl.frompickle(s)),('jsonl',lambda s: etl.fromjson(s,lines=True)),('text',lambda s: etl.fromtext(s)),('json',lambda s: etl.fromjson(s,lines=True))]:
        path={'csv':'big.csv','pickle':'big.p','jsonl':'big.jsonl','text':'big.txt','json':'big.jsonl'}[nm]
        s=BSrc('/tmp/w/io/'+path); v=mk(s); c0=s.bytes
        out=list(itertools.islice(v,6)); print(n,nm,'construct',c0,'after 5 rows',s.bytes,'of',os.path.getsize('/tmp/w/io/'+path))
