import sys, copy, itertools, collections
sys.path.insert(0,'/tmp/w')
from minicat import CAT
A=[['k','j','v','s'],[2,'b',1,'xa'],[1,'a',None,'bx'],[2,'a',3,'cxd'],[None,'c',2,'e'],[1,'a',1,'xa']]
B=[['k','j','v','s'],[1,'a',1,'xa'],[3,'z',5,'q'],[2,'a',3,'cxd'],[1,'q',0,'x']]
def strict_eq(a,b):
    if type(a)!=type(b): return False
    if isinstance(a,(list,tuple)): return len(a)==len(b) and all(strict_eq(x,y) for x,y in zip(a,b))
    if isinstance(a,dict): return a.keys()==b.keys() and all(strict_eq(a[k],b[k]) for k in a)
    return a==b
bad={}
for name,(n,f) in CAT.items():
    for mode in ('full','partial','two'):
        srcs=[copy.deepcopy(A),copy.deepcopy(B)][:n]
        snap=copy.deepcopy(srcs)
        try:
            v=f(*srcs)
            kept=[]
            it=iter(v)
            for i,r in enumerate(it):
                kept.append((r,copy.deepcopy(r)))
                if mode=='partial' and i==2: break
            if mode=='two':
                for r in v: kept.append((r,copy.deepcopy(r)))
        except Exception as e:
            bad[(name,mode)]='EXC %r'%e; continue
        if not strict_eq(srcs,snap): bad[(name,mode)]='SOURCE MUTATED'
        for r,c in kept:
            try: ok=strict_eq(r,c) if isinstance(r,(list,tuple)) else r==c
            except Exception: ok=True
            if not ok: bad[(name,mode)]='YIELDED ROW MUTATED %r -> %r'%(c,r); break
for k,v in bad.items(): print(k,v)
print('done')
