import petl as etl, collections
from hypothesis import given, settings, strategies as st, HealthCheck
from decimal import Decimal
from probe_join import refjoin, square
keyv = st.one_of(st.none(), st.integers(0,2), st.sampled_from(['a',b'a',1.0,True,Decimal(2)]))
val = st.one_of(st.none(), st.integers(0,2))
def tb(names): return st.lists(st.lists(st.one_of(keyv,val),min_size=0,max_size=5),max_size=5).map(lambda rs:[list(names)]+rs)
def ms(rows): return collections.Counter(map(tuple,rows))
pairs=[('inner',etl.join,etl.hashjoin),('left',etl.leftjoin,etl.hashleftjoin),('right',etl.rightjoin,etl.hashrightjoin)]
@settings(max_examples=3000, deadline=None, database=None, suppress_health_check=list(HealthCheck))
@given(tb(['k','j','a','b']),tb(['k','j','c','d']),st.sampled_from(pairs),st.sampled_from(['k',('k','j')]),st.booleans(),st.sampled_from([None,'M']))
def t(L,R,pair,key,cache,missing):
    kind,mj,hj=pair
    # skip known finding: None single key on left with empty right
    Ls=square(L,missing)
    if len(R)==1 and key=='k' and any(r[0] is None for r in Ls[1:]): return
    if len(L)==1 and key=='k' and any(r[0] is None for r in square(R,missing)[1:]) and kind=='right': pass
    kw={'missing':missing} if kind!='inner' else {}
    hkw={'missing':missing}
    m=list(mj(L,R,key=key,**kw))
    if kind=='inner' and missing is not None: return
    h=hj(L,R,key=key,cache=cache,**hkw)
    p1=list(h); p2=list(h)
    assert p1==p2
    assert tuple(m[0])==tuple(p1[0])
    assert ms(m[1:])==ms(p1[1:]),(L,R,kind,key,m,p1)
    keys=[key] if isinstance(key,str) else list(key)
    lk=[L[0].index(k) for k in keys]; rk=[R[0].index(k) for k in keys]
    hdr,exp=refjoin(L,R,lk,rk,kind,missing)
    if kind in('inner','left'):
        assert p1[1:]==exp,(L,R,kind,p1[1:],exp)
    else:
        # right-streamed order
        Rs=square(R,missing); 
        rv=[i for i in range(len(Rs[0])) if i not in rk]
        e=[]
        for r in Rs[1:]:
            mt=[l for l in Ls[1:] if tuple(l[i] for i in lk)==tuple(r[i] for i in rk)]
            if mt:
                for l in mt: e.append(tuple(l)+tuple(r[i] for i in rv))
            else:
                o=[missing]*len(Ls[0])
                for a,b in zip(lk,rk): o[a]=r[b]
                e.append(tuple(o)+tuple(r[i] for i in rv))
        assert p1[1:]==e,(L,R,p1[1:],e)
try:
    t(); print('c07 ok')
except Exception as e:
    print('FAIL',repr(e)[:1500])
