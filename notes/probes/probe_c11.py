import sys, copy, collections, tempfile, os, gc
sys.path.insert(0,'/tmp/w')
import petl as etl, petl.config as config
A=[['k','j','v','s'],[2,'b',1,'xa'],[1,'a',None,'bx'],[2,'a',3,'cxd'],[None,'c',2,'e'],[1,'a',1,'xa'],[3,'q',0,'z'],[2,'b',1,'xa']]
B=[['k','j','v','s'],[1,'a',1,'xa'],[3,'z',5,'q'],[2,'a',3,'cxd'],[1,'q',0,'x'],[2,'b',1,'xa']]
B2=[['k','j2','v2','s2']]+B[1:]
td=tempfile.mkdtemp()
class Src(etl.Table):
    def __init__(self, rows): self.rows=rows; self.pulled=0
    def __iter__(self):
        yield tuple(self.rows[0])
        for r in list(self.rows[1:]):
            self.pulled+=1; yield list(r)
OPS=collections.OrderedDict()
def reg(n,nsrc,f): OPS[n]=(nsrc,f)
for nm in ['join','leftjoin','rightjoin','outerjoin','antijoin']:
    reg(nm,2,lambda a,b,kw,nm=nm: getattr(etl,nm)(a,etl.rename(b,{'v':'v2','s':'s2','j':'j2'}),key='k',**kw))
reg('unjoin0',1,lambda a,kw: etl.unjoin(a,'s',key='k',**kw)[0])
reg('unjoin1',1,lambda a,kw: etl.unjoin(a,'s',key='k',**kw)[1])
reg('unjoin_nk0',1,lambda a,kw: etl.unjoin(a,'s',**kw)[0])
reg('unjoin_nk1',1,lambda a,kw: etl.unjoin(a,'s',**kw)[1])
reg('complement',2,lambda a,b,kw: etl.complement(a,b,**kw))
reg('intersection',2,lambda a,b,kw: etl.intersection(a,b,**kw))
reg('recordcomplement',2,lambda a,b,kw: etl.recordcomplement(a,etl.cut(b,'s','v','j','k'),**kw))
reg('diff0',2,lambda a,b,kw: etl.diff(a,b,**kw)[0])
reg('diff1',2,lambda a,b,kw: etl.diff(a,b,**kw)[1])
reg('recorddiff0',2,lambda a,b,kw: etl.recorddiff(a,etl.cut(b,'s','v','j','k'),**kw)[0])
reg('duplicates',1,lambda a,kw: etl.duplicates(a,'k',**kw))
reg('unique',1,lambda a,kw: etl.unique(a,'k',**kw))
reg('conflicts',1,lambda a,kw: etl.conflicts(a,'k',**kw))
reg('distinct',1,lambda a,kw: etl.distinct(a,'k',**kw))
reg('distinct_count',1,lambda a,kw: etl.distinct(a,'k',count='n',**kw))
reg('rowreduce',1,lambda a,kw: etl.rowreduce(a,'k',lambda k,rows: [k,[r[2] for r in rows]],header=['k','vs'],**kw))
reg('aggregate',1,lambda a,kw: etl.aggregate(a,'k',list,'v',**kw))
reg('aggregate_multi',1,lambda a,kw: etl.aggregate(a,'k',collections.OrderedDict([('n',len),('vs',('v',list))]),**kw))
reg('groupselectfirst',1,lambda a,kw: etl.groupselectfirst(a,'k',**kw))
reg('groupselectlast',1,lambda a,kw: etl.groupselectlast(a,'k',**kw))
reg('groupselectmin',1,lambda a,kw: etl.groupselectmin(a,'k','v',**kw))
reg('groupselectmax',1,lambda a,kw: etl.groupselectmax(a,'k','v',**kw))
reg('mergeduplicates',1,lambda a,kw: etl.mergeduplicates(a,'k',**kw))
reg('merge',2,lambda a,b,kw: etl.merge(a,b,key='k',**kw))
reg('fold',1,lambda a,kw: etl.fold(a,'k',lambda x,y:(x or 0)+(y or 0),'v',**kw))
reg('pivot',1,lambda a,kw: etl.pivot(a,'k','s','v',list,**kw))
reg('mergesort',2,lambda a,b,kw: etl.mergesort(a,b,key='k',**kw))
reg('rowgroupmap',1,lambda a,kw: etl.rowgroupmap(a,'k',lambda k,rows: [[k,len(list(rows))]],header=['k','n'],**kw))
reg('sort',1,lambda a,kw: etl.sort(a,'k',**kw))
def T(v): return [tuple(r) for r in v]
for name,(n,f) in OPS.items():
    srcs=[copy.deepcopy(A),copy.deepcopy(B)][:n]
    try: base=T(f(*srcs,{}))
    except Exception as e: print(name,'BASE EXC',e); continue
    for kw in [dict(buffersize=1),dict(buffersize=2,tempdir=td),dict(buffersize=3,cache=False),dict(cache=False),dict(buffersize=len(A)-1),dict(buffersize=len(A))]:
        try:
            v=f(*[copy.deepcopy(s) for s in srcs],kw); g1=T(v); g2=T(v)
            if g1!=base or g2!=base: print(name,kw,'DIFF',g1[:4],base[:4])
        except Exception as e: print(name,kw,'EXC',type(e).__name__,e)
    old=config.sort_buffersize
    try:
        config.sort_buffersize=2
        g=T(f(*[copy.deepcopy(s) for s in srcs],{}))
        if g!=base: print(name,'CONFIG DIFF')
    except Exception as e: print(name,'CONFIG EXC',e)
    finally: config.sort_buffersize=old
    # cache clause
    for cache in (False,True):
        ss=[Src(copy.deepcopy(s)) for s in srcs]
        try:
            v=f(*ss,dict(cache=cache)); p1=T(v)
            pulled=[s.pulled for s in ss]
            ss[0].rows.append([9,'n',7,'nx'])
            p2=T(v)
            exp=T(f(*[copy.deepcopy(s.rows) for s in ss],{}))
            if cache:
                if p2!=p1 or [s.pulled for s in ss]!=pulled: print(name,'cache=True: pass2 differs or pulled', [s.pulled for s in ss],pulled, p2==p1)
            else:
                if p2!=exp: print(name,'cache=False: pass2 does not reflect edit')
        except Exception as e: print(name,'cache',cache,'EXC',type(e).__name__,e)
gc.collect(); print('tmp left',os.listdir(td))
