import petl as etl, itertools, collections
from hypothesis import given, settings, strategies as st, HealthCheck, assume
cell=st.one_of(st.none(), st.integers(0,2), st.sampled_from(['a','b',1.0,'']))
def T(t): return [tuple(r) for r in t]
def ragged(names): 
    n=len(names); return st.lists(st.lists(cell,min_size=0,max_size=n+1),max_size=5).map(lambda rs:[list(names)]+rs)
hdrs=st.sampled_from([['a','b','c'],['a','a','b'],['a'],['b','a','b','a']])
tbl=hdrs.flatmap(ragged)
def asindices(hdr,spec):
    flds=[str(h) for h in hdr]; out=[]
    for s in spec:
        if isinstance(s,int) and s<len(hdr): out.append(s)
        elif s in flds:
            i=flds.index(s); out.append(i); flds[i]=None
        else: raise KeyError(s)
    return out
specel=st.one_of(st.integers(0,4),st.sampled_from(['a','b','c']))
@settings(max_examples=4000, deadline=None, database=None, suppress_health_check=list(HealthCheck))
@given(tbl, st.lists(specel,min_size=1,max_size=3), st.sampled_from([None,'M']))
def t_cut(t,spec,missing):
    try: idx=asindices(t[0],spec)
    except KeyError:
        try: list(etl.cut(t,*spec)); assert False,'expected FieldSelectionError'
        except etl.errors.FieldSelectionError: return
    got=T(etl.cut(t,*spec,missing=missing))
    exp=[tuple(r[i] if i<len(r) else missing for i in idx) for r in t]
    exp[0]=tuple(t[0][i] for i in idx)
    assert got==exp,(t,spec,got,exp)
    got=T(etl.cutout(t,*spec,missing=missing))
    keep=[i for i in range(len(t[0])) if i not in idx]
    exp=[tuple(r[i] if i<len(r) else missing for i in keep) for r in t]
    assert got==exp,(t,spec,got,exp)
@settings(max_examples=3000, deadline=None, database=None, suppress_health_check=list(HealthCheck))
@given(tbl, st.integers(-5,6), st.sampled_from([None,'M']), st.booleans())
def t_addfield(t,index,missing,usecall):
    n=len(t[0])
    sq=[tuple(t[0])]+[tuple((list(r)+[missing]*n)[:n]) for r in t[1:]]
    value=(lambda rec: len(rec)) if usecall else 'V'
    for idx in (None,index):
        got=T(etl.addfield(t,'z',value,index=idx,missing=missing))
        exp=[]
        for j,r in enumerate(sq):
            o=list(r); o.insert(n if idx is None else idx, 'z' if j==0 else (len(r) if usecall else 'V')); exp.append(tuple(o))
        assert got==exp,(t,idx,got,exp)
    # stack / cat single table
    assert T(etl.stack(t,missing=missing))==sq
@settings(max_examples=3000, deadline=None, database=None, suppress_health_check=list(HealthCheck))
@given(ragged(['a','b','c']), ragged(['c','d']), st.sampled_from([None,'M']), st.sampled_from([None,['d','a','x']]))
def t_cat(t1,t2,missing,header):
    outhdr=header if header else ['a','b','c','d']
    exp=[tuple(outhdr)]
    for t in (t1,t2):
        h=t[0]
        for r in t[1:]:
            exp.append(tuple((r[h.index(f)] if f in h and h.index(f)<len(r) else missing) for f in outhdr))
    kw={'missing':missing}
    if header: kw['header']=header
    assert T(etl.cat(t1,t2,**kw))==exp,(t1,t2,T(etl.cat(t1,t2,**kw)),exp)
    # annex
    exp=[tuple(t1[0])+tuple(t2[0])]
    for r1,r2 in itertools.zip_longest(t1[1:],t2[1:]):
        a=[missing]*3 if r1 is None else (list(r1)+[missing]*3)[:3]
        b=[missing]*2 if r2 is None else (list(r2)+[missing]*2)[:2]
        exp.append(tuple(a+b))
    assert T(etl.annex(t1,t2,missing=missing))==exp
    # movefield
    for f,i in (('a',2),('c',0),('b',-1),('b',7)):
        oh=[x for x in t1[0] if x!=f]; oh.insert(i,f)
        idx=[t1[0].index(x) for x in oh]
        exp=[tuple(oh)]+[tuple(r[k] if k<len(r) else None for k in idx) for r in t1[1:]]
        assert T(etl.movefield(t1,f,i))==exp,(t1,f,i)
@settings(max_examples=3000, deadline=None, database=None, suppress_health_check=list(HealthCheck))
@given(st.lists(st.lists(cell,min_size=3,max_size=3),max_size=6), st.sampled_from([None,'']), st.sampled_from([(),('a',),('b','c'),(0,)]))
def t_fill(rows,missing,fields):
    t=[['a','b','c']]+rows
    if rows:
        idx=[0,1,2] if not fields else [('abc'.index(f) if isinstance(f,str) else f) for f in fields]
        exp=[tuple(t[0])]; last=list(rows[0]); exp.append(tuple(rows[0]))
        for r in rows[1:]:
            o=list(r)
            for i in idx:
                if r[i]==missing: o[i]=last[i]
                else: last[i]=r[i]
            exp.append(tuple(o))
        assert T(etl.filldown(t,*fields,missing=missing))==exp,(t,fields,missing)
    def fr(r):
        o=list(r)
        for i in range(1,len(o)):
            if o[i]==missing and o[i-1]!=missing: o[i]=o[i-1]
        return tuple(o)
    assert T(etl.fillright(t,missing=missing))[1:]==[fr(r) for r in rows]
    assert T(etl.fillleft(t,missing=missing))[1:]==[tuple(reversed(fr(list(reversed(r))))) for r in rows]
for f in (t_cut,t_addfield,t_cat,t_fill):
    try: f(); print(f.__name__,'ok')
    except Exception as e: print(f.__name__,'FAIL',repr(e)[:1000])
