import petl as etl, itertools, datetime as dt
from decimal import Decimal
from hypothesis import given, settings, strategies as st, HealthCheck
from probe_join import cmpv
pool=[None,True,0,1,2,1.0,2.5,Decimal(2),b'a','a','b',dt.date(2020,1,1),(1,'a'),(1,None),(2,),[1,None],([2],)]
cell=st.sampled_from(pool)
tbl=st.lists(st.lists(cell,min_size=0,max_size=3),max_size=7).map(lambda rs:[['a','b']]+rs)
def val(r,i): return r[i] if i<len(r) else None
lt=lambda a,b: cmpv(a,b)<0
le=lambda a,b: cmpv(a,b)<=0
preds={
 'selectlt': lambda v,x,y: lt(v,x), 'selectle': lambda v,x,y: le(v,x), 'selectgt': lambda v,x,y: lt(x,v), 'selectge': lambda v,x,y: le(x,v),
 'selecteq': lambda v,x,y: v==x, 'selectne': lambda v,x,y: v!=x,
}
rng={
 'selectrangeopenleft': lambda v,x,y: le(x,v) and lt(v,y),
 'selectrangeopenright': lambda v,x,y: lt(x,v) and le(v,y),
 'selectrangeopen': lambda v,x,y: le(x,v) and le(v,y),
 'selectrangeclosed': lambda v,x,y: lt(x,v) and lt(v,y),
}
@settings(max_examples=4000, deadline=None, database=None, suppress_health_check=list(HealthCheck))
@given(tbl, st.sampled_from([0,1,'a','b']), cell, cell, st.booleans())
def t(table, field, x, y, comp):
    i=field if isinstance(field,int) else ['a','b'].index(field)
    rows=[tuple(r) for r in table[1:]]
    for name,p in preds.items():
        got=[tuple(r) for r in getattr(etl,name)(table,field,x,complement=comp)][1:]
        exp=[r for r in rows if bool(p(val(r,i),x,y))!=comp]
        assert got==exp,(name,table,field,x,comp,got,exp)
    for name,p in rng.items():
        got=[tuple(r) for r in getattr(etl,name)(table,field,x,y,complement=comp)][1:]
        exp=[r for r in rows if bool(p(val(r,i),x,y))!=comp]
        assert got==exp,(name,table,field,x,y,comp,got,exp)
    for name,p in [('selectnone',lambda v: v is None),('selectnotnone',lambda v: v is not None),('selecttrue',lambda v: bool(v)),('selectfalse',lambda v: not bool(v))]:
        got=[tuple(r) for r in getattr(etl,name)(table,field,complement=comp)][1:]
        assert got==[r for r in rows if p(val(r,i))!=comp],(name,)
    got=[tuple(r) for r in etl.selectin(table,field,[x,y],complement=comp)][1:]
    assert got==[r for r in rows if (val(r,i) in [x,y])!=comp]
    got=[tuple(r) for r in etl.rowlenselect(table,2,complement=comp)][1:]
    assert got==[r for r in rows if (len(r)==2)!=comp]
    a,b=etl.biselect(table,lambda rec: rec['a'] is None)
    assert [tuple(r) for r in a][1:]==[r for r in rows if val(r,0) is None] and [tuple(r) for r in b][1:]==[r for r in rows if val(r,0) is not None]
@settings(max_examples=3000, deadline=None, database=None, suppress_health_check=list(HealthCheck))
@given(tbl, st.one_of(st.none(),st.integers(0,9)), st.one_of(st.none(),st.integers(0,9)), st.one_of(st.none(),st.integers(1,4)), st.integers(0,9))
def t2(table,a,b,c,n):
    rows=[tuple(r) for r in table[1:]]
    assert [tuple(r) for r in etl.rowslice(table,a,b,c)][1:]==list(itertools.islice(rows,a,b,c))
    assert [tuple(r) for r in etl.rowslice(table,n)][1:]==rows[:n]
    assert [tuple(r) for r in etl.head(table,n)][1:]==rows[:n]
    assert [tuple(r) for r in etl.tail(table,n)][1:]==(rows[-n:] if n else []),(table,n,list(etl.tail(table,n)))
    assert [tuple(r) for r in etl.skip(table,n)]==[tuple(r) for r in table][n:]
for f in (t,t2):
    try: f(); print(f.__name__,'ok')
    except Exception as e: print(f.__name__,'FAIL',repr(e)[:1200])
