import petl as etl, itertools, collections, re
from hypothesis import given, settings, strategies as st, HealthCheck, assume
from probe_join import cmpv
import functools
ck=functools.cmp_to_key(cmpv)
cell=st.one_of(st.none(), st.integers(0,2), st.sampled_from(['a','b',1.0,True,b'a']))
def rect(n,minrows=0,maxrows=5): return st.lists(st.lists(cell,min_size=n,max_size=n),min_size=minrows,max_size=maxrows).map(lambda rs:[['f%d'%i for i in range(n)]]+rs)
def T(t): return [tuple(r) for r in t]
@settings(max_examples=2000, deadline=None, database=None, suppress_health_check=list(HealthCheck))
@given(st.integers(1,4).flatmap(lambda n: rect(n)))
def t_transpose(t):
    assert T(etl.transpose(etl.transpose(t)))==T(t)
    n=len(t[0])
    assert T(etl.unflatten(etl.flatten(t),n))[1:]==T(t)[1:]
    cols=etl.columns(t)
    assert T(etl.fromcolumns(list(cols.values()),header=list(cols.keys())))==T(t)
    if len(t)>1:
        assert T(etl.fromdicts(etl.dicts(t)))==T(t)
        assert T(etl.fromdicts(etl.dicts(t),header=t[0]))==T(t)
@settings(max_examples=2000, deadline=None, database=None, suppress_health_check=list(HealthCheck))
@given(st.lists(st.tuples(cell, st.sampled_from(['x','y','z']), st.integers(0,3)).map(list),max_size=7), st.sampled_from([None,'M']), st.sampled_from([None,1,2]))
def t_pivot(rows, missing, bs):
    t=[['r','c','v']]+rows
    got=T(etl.pivot(t,'r','c','v',sum,missing=missing,buffersize=bs))
    cvals=sorted(set(r[1] for r in rows))
    assert got[0]==('r',)+tuple(cvals)
    rkeys=[]
    for r in rows:
        if not any(r[0]==k for k in rkeys): rkeys.append(r[0])
    rkeys.sort(key=ck)
    exp=[]
    for k in rkeys:
        row=[k]
        for c in cvals:
            vs=[r[2] for r in rows if r[0]==k and r[1]==c]
            row.append(sum(vs) if vs else missing)
        exp.append(tuple(row))
    assert got[1:]==exp,(t,got,exp)
txt=st.text(st.sampled_from(list('ab,;1')),max_size=5)
@settings(max_examples=2000, deadline=None, database=None, suppress_health_check=list(HealthCheck))
@given(st.lists(st.tuples(cell,txt,cell).map(list),max_size=5), st.booleans(), st.integers(0,2), st.sampled_from(['s',1]))
def t_split(rows, inc, maxsplit, field):
    t=[['a','s','b']]+rows
    got=T(etl.split(t,field,',',['p','q'],include_original=inc,maxsplit=maxsplit))
    hdr=('a','s','b') if inc else ('a','b')
    assert got[0]==hdr+('p','q'),got[0]
    exp=[]
    for r in rows:
        base=tuple(r) if inc else (r[0],r[2])
        exp.append(base+tuple(re.split(',',r[1],maxsplit=maxsplit)))
    assert got[1:]==exp
    got=T(etl.splitdown(t,field,','))
    exp=[]
    for r in rows:
        for p in r[1].split(','): exp.append((r[0],p,r[2]))
    assert got[0]==('a','s','b') and got[1:]==exp
    got=T(etl.capture(t,'s','([ab]*)(.*)',['p','q'],include_original=inc))
    exp=[]
    for r in rows:
        base=tuple(r) if inc else (r[0],r[2])
        exp.append(base+re.search('([ab]*)(.*)',r[1]).groups())
    assert got[1:]==exp
    got=T(etl.sub(t,'s',',',';'))
    assert got[1:]==[(r[0],r[1].replace(',',';'),r[2]) for r in rows]
@settings(max_examples=2000, deadline=None, database=None, suppress_health_check=list(HealthCheck))
@given(st.lists(st.tuples(cell,st.lists(cell,max_size=4),cell).map(list),max_size=5), st.booleans(), st.integers(0,3), st.sampled_from([None,'M']), st.booleans())
def t_unpack(rows, inc, n, missing, aslist):
    t=[['a','u','b']]+rows
    nf=['u%d'%i for i in range(n)] if aslist else n
    got=T(etl.unpack(t,'u',nf,include_original=inc,missing=missing))
    names=tuple('u%d'%i for i in range(n)) if aslist else tuple('u%d'%(i+1) for i in range(n))
    hdr=(('a','u','b') if inc else ('a','b'))+names
    assert got[0]==hdr,(got[0],hdr)
    exp=[]
    for r in rows:
        base=tuple(r) if inc else (r[0],r[2])
        exp.append(base+tuple((list(r[1])+[missing]*n)[:n]))
    assert got[1:]==exp,(t,nf,got,exp)
@settings(max_examples=2000, deadline=None, database=None, suppress_health_check=list(HealthCheck))
@given(st.lists(st.tuples(cell,st.one_of(st.none(),st.dictionaries(st.sampled_from(['x','y','z']),cell,max_size=3)),cell).map(list),max_size=5), st.booleans(), st.sampled_from([None,['x','q'],['z','x']]), st.sampled_from([None,'M']))
def t_unpackdict(rows, inc, keys, missing):
    t=[['a','d','b']]+rows
    got=T(etl.unpackdict(t,'d',keys=keys,includeoriginal=inc,missing=missing))
    ks=keys if keys else sorted(set(k for r in rows if isinstance(r[1],dict) for k in r[1]))
    hdr=(('a','d','b') if inc else ('a','b'))+tuple(ks)
    assert got[0]==hdr
    exp=[]
    for r in rows:
        base=tuple(r) if inc else (r[0],r[2])
        exp.append(base+tuple((r[1].get(k,missing) if isinstance(r[1],dict) and k in r[1] else missing) for k in ks))
    assert got[1:]==exp,(t,got,exp)
for f in (t_transpose,t_pivot,t_split,t_unpack,t_unpackdict):
    try: f(); print(f.__name__,'ok')
    except Exception as e: print(f.__name__,'FAIL',repr(e)[:900])
