import petl as etl, json, gzip, bz2, os, csv, io, datetime as dt
from decimal import Decimal
from hypothesis import given, settings, strategies as st, HealthCheck
os.makedirs('/tmp/w/io',exist_ok=True); os.chdir('/tmp/w/io')
jcell=st.one_of(st.none(),st.booleans(),st.integers(-3,3),st.integers(),st.floats(allow_nan=False,allow_infinity=False),st.text(max_size=3),st.lists(st.integers(0,2),max_size=2))
names=st.lists(st.text(st.sampled_from(list('abé "\n')),min_size=0,max_size=3),min_size=1,max_size=3,unique=True)
jt=st.tuples(names,st.lists(st.lists(jcell,max_size=4),min_size=1,max_size=4)).map(lambda t:[t[0]]+t[1])
def sq(t,missing=None):
    n=len(t[0]); return [tuple(t[0])]+[tuple((list(r)+[missing]*n)[:n]) for r in t[1:]]
kinds=['x.json','x.json.gz','x.json.bz2','mem']
@settings(max_examples=1500, deadline=None, database=None, suppress_health_check=list(HealthCheck))
@given(jt, st.sampled_from(kinds), st.booleans())
def tjson(t,kind,lines):
    exp=sq(t)
    if kind=='mem':
        ms=etl.MemorySource(); etl.tojson(t,ms,lines=lines); got=list(etl.fromjson(etl.MemorySource(ms.getvalue()),lines=lines))
    else:
        etl.tojson(t,kind,lines=lines); got=list(etl.fromjson(kind,lines=lines))
    assert [tuple(r) for r in got]==exp,(t,kind,lines,got,exp)
    ms=etl.MemorySource(); etl.tojsonarrays(t,ms); assert json.loads(ms.getvalue())==[list(r) for r in t[1:]]
    ms=etl.MemorySource(); etl.tojsonarrays(t,ms,output_header=True); assert json.loads(ms.getvalue())==[list(r) for r in t]
pcell=st.one_of(jcell,st.binary(max_size=2),st.dates(),st.decimals(allow_nan=False),st.tuples(st.integers(0,1)))
pt=st.tuples(st.lists(st.one_of(st.text(max_size=2),st.integers(0,2)),max_size=3),st.lists(st.lists(pcell,max_size=4),max_size=4)).map(lambda t:[t[0]]+t[1])
def strict(a,b):
    if type(a)!=type(b): return False
    if isinstance(a,(list,tuple)): return len(a)==len(b) and all(strict(x,y) for x,y in zip(a,b))
    return a==b
@settings(max_examples=1500, deadline=None, database=None, suppress_health_check=list(HealthCheck))
@given(pt, pt, st.sampled_from(['x.p','x.p.gz','x.p.bz2','mem']), st.booleans(), st.booleans())
def tpickle(t,t2,kind,wh,wh2):
    if kind=='mem':
        ms=etl.MemorySource(); etl.topickle(t,ms,write_header=wh); etl.appendpickle(t2,ms,write_header=wh2); got=list(etl.frompickle(etl.MemorySource(ms.getvalue())))
    else:
        etl.topickle(t,kind,write_header=wh); etl.appendpickle(t2,kind,write_header=wh2); got=list(etl.frompickle(kind))
    exp=[tuple(r) for r in (t if wh else t[1:])]+[tuple(r) for r in (t2 if wh2 else t2[1:])]
    assert strict(got,exp),(t,t2,kind,wh,wh2,got,exp)
alphabet=st.sampled_from(list('ab,"\'\r\n\x00;|\t é€')+['\U0001F600'])
ccell=st.one_of(st.text(alphabet,max_size=4),st.none(),st.integers(-5,5),st.floats(allow_nan=False,allow_infinity=False,width=16))
ct=st.tuples(st.lists(st.text(alphabet,max_size=3),min_size=1,max_size=3),st.lists(st.lists(ccell,max_size=3),max_size=4)).map(lambda t:[t[0]]+t[1])
def render(t): return [tuple('' if v is None else str(v) for v in r) for r in t]
@settings(max_examples=2500, deadline=None, database=None, suppress_health_check=list(HealthCheck))
@given(ct, ct, st.sampled_from(['utf-8','utf-8-sig','utf-16','latin-1']), st.sampled_from([',',';','\t','|']), st.sampled_from(['"',"'"]), st.sampled_from([csv.QUOTE_MINIMAL,csv.QUOTE_ALL]), st.sampled_from(['p.csv','p.csv.gz','p.csv.bz2','mem']), st.booleans(), st.booleans(), st.integers(0,2))
def tcsv(t,t2,enc,delim,qc,quoting,kind,wh,wh2,nappend):
    kw=dict(delimiter=delim,quotechar=qc,quoting=quoting)
    full=(t if wh else t[1:])+((t2 if wh2 else t2[1:])*nappend)
    s=io.StringIO(newline=''); w=csv.writer(s,**kw)
    for r in full: w.writerow(r)
    s.seek(0); ctrl=[tuple(r) for r in csv.reader(s,**kw)]
    exp=render(full)
    if ctrl!=exp: return
    try:
        for r in full:
            for v in r: ('' if v is None else str(v)).encode(enc)
    except UnicodeEncodeError: return
    bom = enc in ('utf-16','utf-32')
    if bom and (kind.endswith('.bz2') or (nappend and kind.endswith('.gz'))): return  # known finding
    if enc=='utf-8-sig' and nappend and (kind.endswith('.gz') or kind.endswith('.bz2')): return
    if kind=='mem':
        ms=etl.MemorySource(); etl.tocsv(t,ms,encoding=enc,write_header=wh,**kw)
        for _ in range(nappend): etl.appendcsv(t2,ms,encoding=enc,write_header=wh2,**kw)
        got=list(etl.fromcsv(etl.MemorySource(ms.getvalue()),encoding=enc,**kw))
    else:
        etl.tocsv(t,kind,encoding=enc,write_header=wh,**kw)
        for _ in range(nappend): etl.appendcsv(t2,kind,encoding=enc,write_header=wh2,**kw)
        got=list(etl.fromcsv(kind,encoding=enc,**kw))
    assert got==exp,(t,t2,enc,kw,kind,wh,wh2,nappend,got,exp)
for f in (tjson,tpickle,tcsv):
    try: f(); print(f.__name__,'ok')
    except Exception as e: print(f.__name__,'FAIL',repr(e)[:1300])
