import petl as etl, io, logging
from petl.util.materialise import cache
from hypothesis import given, settings, strategies as st, HealthCheck
cell = st.one_of(st.none(), st.integers(-2,2), st.text(st.sampled_from(list('ab,"\n\r é')),max_size=3), st.floats(allow_nan=False,width=16))
tbl = st.tuples(st.lists(st.text(st.sampled_from(list('abc')),min_size=1,max_size=2),min_size=1,max_size=3,unique=True), st.lists(st.lists(cell,max_size=4),max_size=4)).map(lambda t:[t[0]]+t[1])
def norm(t): return [tuple(r) for r in t]
@settings(max_examples=1500, deadline=None, database=None, suppress_health_check=list(HealthCheck))
@given(tbl, st.booleans(), st.sampled_from(['utf-8','utf-16','latin-1']), st.integers(1,6), st.sampled_from([None,0,1,2,3,10]))
def t(table, wh, enc, batch, n):
    exp=norm(table)
    # csv
    a=etl.MemorySource(); b=etl.MemorySource()
    try:
        etl.tocsv(table,a,encoding=enc,write_header=wh)
    except UnicodeEncodeError:
        return
    v=etl.teecsv(table,b,encoding=enc,write_header=wh)
    assert norm(v)==exp; assert a.getvalue()==b.getvalue(),(a.getvalue(),b.getvalue())
    a=etl.MemorySource(); b=etl.MemorySource()
    etl.totsv(table,a,encoding=enc,write_header=wh); assert norm(etl.teetsv(table,b,encoding=enc,write_header=wh))==exp; assert a.getvalue()==b.getvalue()
    a=etl.MemorySource(); b=etl.MemorySource()
    etl.topickle(table,a,write_header=wh); assert norm(etl.teepickle(table,b,write_header=wh))==exp; assert a.getvalue()==b.getvalue()
    a=etl.MemorySource(); b=etl.MemorySource()
    tmpl=' '.join('{%s}'%f for f in table[0])+'\n'
    etl.totext(table,a,encoding=enc,template=tmpl,prologue='P\n',epilogue='E'); assert norm(etl.teetext(table,b,encoding=enc,template=tmpl,prologue='P\n',epilogue='E'))==exp; assert a.getvalue()==b.getvalue(),(a.getvalue(),b.getvalue())
    a=etl.MemorySource(); b=etl.MemorySource()
    etl.tohtml(table,a,encoding=enc,caption='c'); assert norm(etl.teehtml(table,b,encoding=enc,caption='c'))==exp; assert a.getvalue()==b.getvalue()
    out=io.StringIO()
    assert norm(etl.progress(table,batch,out=out))==exp
    lg=logging.getLogger('x'); lg.propagate=False
    assert norm(etl.log_progress(table,batch,logger=lg))==exp
    assert norm(etl.clock(table))==exp
    assert norm(etl.wrap(table))==exp
    c=cache(table,n=n); assert norm(c)==exp; assert norm(c)==exp,(n,norm(c),exp)
try:
    t(); print('c16 ok')
except Exception as e:
    print('FAIL',repr(e)[:1500])
