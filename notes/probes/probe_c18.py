import petl as etl, gc, os, tempfile, shutil, sys
from hypothesis import settings, strategies as st, seed, HealthCheck, Phase
from hypothesis.stateful import RuleBasedStateMachine, rule, initialize, precondition, run_state_machine_as_test
STATS={'runs':0,'files_seen':0,'abandon':0}
class M(RuleBasedStateMachine):
    def __init__(self):
        super().__init__()
        self.td=tempfile.mkdtemp(dir='/tmp/w/td')
        self.view=None; self.its={}; self.pos={}; self.ref=None
    @initialize(n=st.integers(0,7), bs=st.integers(1,4), cache=st.booleans(), kind=st.sampled_from(['sort','join','distinct']))
    def init(self,n,bs,cache,kind):
        src=[['k','v']]+[[(i*7)%5,i] for i in range(n)]
        if kind=='sort':
            self.view=etl.sort(src,'k',buffersize=bs,tempdir=self.td,cache=cache)
            self.ref=[('k','v')]+sorted([tuple(r) for r in src[1:]],key=lambda r:r[0])
        elif kind=='join':
            self.view=etl.join(src,[['k','w']]+[[i,i] for i in range(5)],key='k',buffersize=bs,tempdir=self.td,cache=cache)
            self.ref=[tuple(r) for r in etl.join(src,[['k','w']]+[[i,i] for i in range(5)],key='k')]
        else:
            self.view=etl.distinct(src,'k',buffersize=bs,tempdir=self.td,cache=cache)
            self.ref=[tuple(r) for r in etl.distinct(src,'k')]
        STATS['runs']+=1
    @precondition(lambda self: self.view is not None)
    @rule(s=st.integers(0,2))
    def new_iter(self,s):
        self.its[s]=iter(self.view); self.pos[s]=0
    @rule(s=st.integers(0,2), m=st.integers(1,4))
    def advance(self,s,m):
        if s not in self.its: return
        for _ in range(m):
            try:
                r=tuple(next(self.its[s]))
                assert self.pos[s]<len(self.ref) and r==self.ref[self.pos[s]],(r,self.pos[s],self.ref)
                self.pos[s]+=1
            except StopIteration:
                assert self.pos[s]==len(self.ref)
                break
        if os.listdir(self.td): STATS['files_seen']+=1
    @rule(s=st.integers(0,2))
    def drop_iter(self,s):
        if s in self.its:
            if 0<self.pos[s]<len(self.ref): STATS['abandon']+=1
            del self.its[s]; del self.pos[s]
        self.check()
    @rule()
    def drop_view(self):
        self.view=None
        self.check()
    def check(self):
        if self.view is None and not self.its:
            gc.collect()
            left=os.listdir(self.td)
            assert left==[],left
    def teardown(self):
        self.view=None; self.its.clear()
        gc.collect()
        left=os.listdir(self.td)
        shutil.rmtree(self.td,ignore_errors=True)
        assert left==[],left
os.makedirs('/tmp/w/td',exist_ok=True)
run_state_machine_as_test(seed(int(os.environ.get('VERIF_SEED','1')))(M), settings=settings(max_examples=300, stateful_step_count=20, deadline=None, database=None, suppress_health_check=list(HealthCheck)))
print('c18 ok',STATS)
