import petl as etl, petl.config as config
from hypothesis import given, settings, strategies as st, HealthCheck
class Boom(Exception):
    def __init__(s,i,f=None): s.i=i; s.f=f
    def __eq__(s,o): return isinstance(o,Boom) and (s.i,s.f)==(o.i,o.f)
    def __hash__(s): return hash((s.i,s.f))
    def __repr__(s): return 'Boom(%r,%r)'%(s.i,s.f)
@settings(max_examples=2000, deadline=None, database=None, suppress_health_check=list(HealthCheck))
@given(st.integers(0,6), st.sets(st.tuples(st.integers(0,5),st.sampled_from(['a','b']))), st.sampled_from([False,True,'inline']), st.booleans(), st.sampled_from([None,'ERR']), st.lists(st.integers(0,2),min_size=6,max_size=6))
def t(n, fails, policy, viaconfig, ev, afterj):
    table=[['id','a','b']]+[[i,'a%d'%i,'b%d'%i] for i in range(n)]
    fails={f for f in fails if f[0]<n}
    failrows={i for i,_ in fails}
    def conv(field):
        def c(v, row): 
            if (row[0],field) in fails: raise Boom(row[0],field)
            return v.upper()
        return c
    kw={} if viaconfig else {'failonerror':policy}
    old=config.failonerror
    try:
        if viaconfig: config.failonerror=policy
        views={
         'convert': etl.convert(table,{'a':conv('a'),'b':conv('b')},pass_row=True,errorvalue=ev,**kw),
         'fieldmap': etl.fieldmap(table,{'id':'id','a':lambda r: conv('a')(r['a'],r),'b':lambda r: conv('b')(r['b'],r)},errorvalue=ev,**kw),
         'rowmap': etl.rowmap(table,lambda r: [r[0],conv('a')(r['a'],r),conv('b')(r['b'],r)],['id','a','b'],**kw),
        }
        def gen(r):
            for j in range(3):
                if r[0] in failrows and j==afterj[r[0]]: raise Boom(r[0])
                yield [r[0],j]
        views['rowmapmany']=etl.rowmapmany(table,gen,['id','j'],**kw)
        got={}
        for name,v in views.items():
            out=[]; exc=None
            it=iter(v)
            try:
                for r in it: out.append(tuple(r))
            except Boom as e: exc=e
            got[name]=(out,exc)
    finally:
        config.failonerror=old
    # reference
    for name in ('convert','fieldmap'):
        exp=[('id','a','b')]; eexc=None
        for i in range(n):
            row=[i]
            for f in ('a','b'):
                if (i,f) in fails:
                    if policy is True: eexc=Boom(i,f); break
                    row.append(Boom(i,f) if policy=='inline' else ev)
                else: row.append(('%s%d'%(f,i)).upper())
            if eexc: break
            exp.append(tuple(row))
        assert got[name]==(exp,eexc),(name,policy,fails,got[name],exp,eexc)
    exp=[('id','a','b')]; eexc=None
    for i in range(n):
        fs=sorted(f for (ii,f) in fails if ii==i)
        if fs:
            if policy is True: eexc=Boom(i,fs[0]); break
            if policy=='inline': exp.append((Boom(i,fs[0]),))
        else: exp.append((i,('a%d'%i).upper(),('b%d'%i).upper()))
    assert got['rowmap']==(exp,eexc),('rowmap',policy,fails,got['rowmap'],exp,eexc)
    exp=[('id','j')]; eexc=None
    for i in range(n):
        for j in range(3):
            if i in failrows and j==afterj[i]:
                if policy is True: eexc=Boom(i)
                elif policy=='inline': exp.append((Boom(i),))
                break
            exp.append((i,j))
        if eexc: break
    assert got['rowmapmany']==(exp,eexc),('rowmapmany',policy,fails,afterj,got['rowmapmany'],exp,eexc)
try:
    t(); print('c19 ok')
except Exception as e:
    print('FAIL',repr(e)[:1500])
