import petl as etl, functools, collections
from hypothesis import given, settings, strategies as st, HealthCheck
from decimal import Decimal
import datetime as dt
keyv = st.one_of(st.none(), st.integers(0,3), st.sampled_from(['a','b',b'a',1.0,2.5,True,Decimal(2),dt.date(2020,1,1)]))
val = st.one_of(st.none(), st.integers(0,2), st.sampled_from(['x','y']))
def table(names, ragged=True):
    n=len(names)
    row = st.tuples(keyv, keyv, val, val).map(list)
    def cutrow(r, ln): return r[:ln]
    rows = st.lists(st.tuples(row, st.integers(0 if ragged else n, n+1 if ragged else n)).map(lambda t: (t[0]+[9])[:t[1]]), max_size=5)
    return rows.map(lambda rs: [list(names)]+[r for r in rs])
def rank(v):
    if v is None: return 0
    if isinstance(v,(bool,int,float,Decimal)): return 1
    return 2
def tname(v):
    if isinstance(v,bytes): return 'str'
    if isinstance(v,str): return 'unicode'
    return type(v).__name__
def cmpv(a,b):
    if isinstance(a,(list,tuple)) and isinstance(b,(list,tuple)):
        for x,y in zip(a,b):
            c=cmpv(x,y)
            if c: return c
        return (len(a)>len(b))-(len(a)<len(b))
    ra,rb=rank(a),rank(b)
    if ra!=rb: return -1 if ra<rb else 1
    if ra==0: return 0
    if ra==1: return (a>b)-(a<b)
    ta,tb=tname(a),tname(b)
    if isinstance(a,(list,tuple)): ta='tuple'
    if isinstance(b,(list,tuple)): tb='tuple'
    if ta!=tb: return -1 if ta<tb else 1
    return (a>b)-(a<b)
def square(t, missing):
    n=len(t[0])
    return [tuple(t[0])]+[tuple((list(r)+[missing]*n)[:n]) for r in t[1:]]
def refjoin(L,R,lk,rk,kind,missing=None):
    L=square(L,missing); R=square(R,missing)
    lh,rh=L[0],R[0]
    rv=[i for i in range(len(rh)) if i not in rk]
    hdr=tuple(lh)+tuple(rh[i] for i in rv)
    out=[]
    gk=lambda r,ks: tuple(r[i] for i in ks)
    rmatched=set()
    for l in L[1:]:
        m=False
        for j,r in enumerate(R[1:]):
            if gk(l,lk)==gk(r,rk):
                m=True; rmatched.add(j)
                out.append(tuple(l)+tuple(r[i] for i in rv))
        if not m and kind in ('left','outer'):
            out.append(tuple(l)+(missing,)*len(rv))
    if kind in ('right','outer'):
        for j,r in enumerate(R[1:]):
            if j not in rmatched:
                o=[missing]*len(lh)
                for a,b in zip(lk,rk): o[a]=r[b]
                out.append(tuple(o)+tuple(r[i] for i in rv))
    return hdr,out
fn={'inner':etl.join,'left':etl.leftjoin,'right':etl.rightjoin,'outer':etl.outerjoin}
def ms(rows): return collections.Counter(map(tuple,rows))
@settings(max_examples=3000, deadline=None, database=None, suppress_health_check=list(HealthCheck))
@given(table(['k','j','a','b']), table(['k','j','c','d']), st.sampled_from(['inner','left','right','outer']), st.sampled_from([('k',),('k','j')]), st.sampled_from([None,'M']))
def t(L,R,kind,key,missing):
    lk=[L[0].index(k) for k in key]; rk=[R[0].index(k) for k in key]
    hdr,exp=refjoin(L,R,lk,rk,kind,missing)
    kw={} if kind=="inner" else {'missing':missing}
    if kind=='inner' and missing is not None: return
    got=list(fn[kind](L,R,key=key if len(key)>1 else key[0],**kw))
    assert tuple(got[0])==hdr,(got[0],hdr)
    assert ms(got[1:])==ms(exp),(L,R,kind,key,missing,got[1:],exp)
    # order by key
    ks=[tuple(r[i] for i in lk) for r in got[1:]]
    for a,b in zip(ks,ks[1:]): assert cmpv(a,b)<=0,(L,R,kind,ks)
try:
    t(); print('join ok')
except Exception as e:
    print('FAIL', repr(e)[:1200])
