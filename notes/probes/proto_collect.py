import os, time, collections
import petl as etl
from hypothesis import given, settings, seed, strategies as st, HealthCheck, Phase
SEED=int(os.environ.get('VERIF_SEED','1'))
keyv=st.one_of(st.none(),st.integers(0,2))
tbl=lambda names: st.lists(st.lists(keyv,min_size=2,max_size=2),max_size=4).map(lambda rs:[list(names)]+rs)
def oracle(case):
    L,R,fn=case
    f=getattr(etl,fn)
    try: got=list(f(L,R,key='k'))
    except Exception as e: return ('exc',fn,type(e).__name__)
    lkeys=[r[0] for r in L[1:]]; rkeys=[r[0] for r in R[1:]]
    if fn=='leftjoin':
        exp=sum(max(1,rkeys.count(k)) for k in lkeys)
        if len(got)-1!=exp: return ('rows',fn,'count')
    return None
cases=st.tuples(tbl(['k','a']),tbl(['k','b']),st.sampled_from(['leftjoin','lookupjoin','join']))
stats=collections.Counter(); buckets={}
def run(target=None, examples=2000, phases=(Phase.generate,)):
    @seed(SEED)
    @settings(max_examples=examples, deadline=None, database=None, report_multiple_bugs=False, phases=list(phases), suppress_health_check=list(HealthCheck))
    @given(cases)
    def t(case):
        fail=oracle(case)
        if target is None:
            stats['evals']+=1
            if fail: buckets.setdefault(fail,case); stats[fail]+=1
        elif fail==target:
            raise AssertionError(repr(case))
    t()
t0=time.time(); run(); print('generate', stats['evals'], {k:v for k,v in stats.items() if k!='evals'}, round(time.time()-t0,2),'s')
for b in buckets:
    t0=time.time()
    try: run(target=b, phases=(Phase.generate,Phase.shrink)); print('not reproduced',b)
    except AssertionError as e: print('shrunk',b,'->',str(e)[:120], round(time.time()-t0,2),'s')
