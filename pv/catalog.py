"""The operator catalogue: one entry per public view constructor / accessor that is importable
in this sandbox, with fixed, valid arguments over the canonical source header ('k','j','v','s').

    k, j : key-like cells (small pool incl. None, mixed types, duplicates)
    v    : int or None
    s    : text (contains 'x' / ',' so regex and split operators have work to do)

The catalogue is the common domain of the "for all operators" properties C01, C02, C03, C11, C20.
Entries refer to fields by name, so the properties may permute or extend the header.

Optional back ends (xls, xlsx, numpy, pandas, avro, bcolz, whoosh, hdf5, gsheet, remote sources,
interval joins) need packages that are not installed here and are out of reach.
"""
import collections
import io
import operator

import petl as etl
from petl.util.materialise import cache as _cache

H = ("k", "j", "v", "s")
_RN0 = {"v": "v2", "s": "s2", "j": "j2"}

ENTRIES = collections.OrderedDict()


class Entry(object):
    def __init__(self, name, n, build, flags="", ref=None, norm=None, empty=None, ahead=4, presort=None,
                 prepare=None, hdr=None, cells=None):
        self.name = name
        self.n = n
        self.build = build
        self.flags = set(flags.split())
        self.ref = ref
        self.norm = norm
        self.empty = empty
        self.ahead = ahead
        self.presort = presort  # key by which inputs must be sorted for presorted=True
        self.prepare = prepare
        self.hdr = hdr
        self.cells = cells or {}  # column -> cell kind understood by catgen ('pair', 'dict')

    def has(self, f):
        return f in self.flags

    def __repr__(self):
        return "Entry(%s)" % self.name


def E(name, n, build, flags="", **kw):
    assert name not in ENTRIES, name
    ENTRIES[name] = Entry(name, n, build, flags, **kw)


def _vi(v):
    return v if isinstance(v, int) and not isinstance(v, bool) else 0


# ---- basics ---------------------------------------------------------------------------------
E("cut", 1, lambda S: etl.cut(S[0], "v", "k"), "stream")
E("cut_index", 1, lambda S: etl.cut(S[0], 2, "k"), "stream")
E("cutout", 1, lambda S: etl.cutout(S[0], "j"), "stream")
E("cat", 2, lambda S: etl.cat(S[0], S[1]), "stream")
E("cat_header", 2, lambda S: etl.cat(S[0], S[1], header=["s", "k", "zz"], missing="M"), "stream")
E("stack", 2, lambda S: etl.stack(S[0], S[1]), "stream")
E("addfield", 1, lambda S: etl.addfield(S[0], "z", lambda r: r["v"], index=1), "stream")
E("addfield_const", 1, lambda S: etl.addfield(S[0], "z", 7), "stream")
E("addfields", 1, lambda S: etl.addfields(S[0], [("y", 1), ("z", lambda r: r["k"], 0)]), "stream")
E("rowslice", 1, lambda S: etl.rowslice(S[0], 1, None), "stream")
E("rowslice_step", 1, lambda S: etl.rowslice(S[0], 0, None, 2), "stream")
E("head", 1, lambda S: etl.head(S[0], 2), "stream")
E("tail", 1, lambda S: etl.tail(S[0], 2), "")
E("skipcomments", 1, lambda S: etl.skipcomments(S[0], "#"), "stream")
E("movefield", 1, lambda S: etl.movefield(S[0], "v", 0), "stream")
E("annex", 2, lambda S: etl.annex(S[0], S[1]), "stream")
E("addrownumbers", 1, lambda S: etl.addrownumbers(S[0]), "stream")
E("addcolumn", 1, lambda S: etl.addcolumn(S[0], "z", [1, 2, 3]), "stream rect",
  empty=[H + ("z",)] + [(None,) * 4 + (i,) for i in (1, 2, 3)])
E("addfieldusingcontext", 1,
  lambda S: etl.addfieldusingcontext(S[0], "z", lambda p, c, n: 0 if p is None else 1), "stream rect")
# ---- non-default argument forms of the same operators (other code paths over the caller's rows) -----------------
E("stack_notrim", 2, lambda S: etl.stack(S[0], S[1], trim=False), "stream")
E("stack_nopad", 2, lambda S: etl.stack(S[0], S[1], pad=False, missing="M"), "stream")
E("stack_single", 1, lambda S: etl.stack(S[0], missing="M", trim=False), "stream")
E("cat_single_missing", 1, lambda S: etl.cat(S[0], missing="M"), "stream")
E("annex_missing", 2, lambda S: etl.annex(S[0], S[1], missing="M"), "stream")
E("cut_missing", 1, lambda S: etl.cut(S[0], "s", 0, missing="M"), "stream")
E("cutout_missing", 1, lambda S: etl.cutout(S[0], "k", "v", missing="M"), "stream")
E("addfield_index0_missing", 1, lambda S: etl.addfield(S[0], "z", lambda r: r["s"], index=0, missing="M"), "stream")
E("addfields_missing", 1, lambda S: etl.addfields(S[0], [("y", 1, 2)], missing="M"), "stream")
E("addcolumn_index_missing", 1, lambda S: etl.addcolumn(S[0], "z", [1], index=1, missing="M"), "stream rect",
  empty=[("k", "z", "j", "v", "s"), ("M", 1, "M", "M", "M")])
E("addrownumbers_args", 1, lambda S: etl.addrownumbers(S[0], start=5, step=-1, field="n"), "stream")
E("movefield_end", 1, lambda S: etl.movefield(S[0], "k", 3), "stream")
E("sortheader_reverse", 1, lambda S: etl.sortheader(S[0], reverse=True, missing="M"), "stream")
E("rename_nonstrict", 1, lambda S: etl.rename(S[0], {"k": "K", "nosuch": "X"}, strict=False), "stream")
E("filldown_missing", 1, lambda S: etl.filldown(S[0], "v", "k", missing=0), "stream rect")
E("fillright_missing", 1, lambda S: etl.fillright(S[0], missing=""), "stream")
E("fillleft_missing", 1, lambda S: etl.fillleft(S[0], missing=""), "stream")
E("convert_failonerror_false", 1, lambda S: etl.convert(S[0], "v", lambda v: 1 / v, failonerror=False), "stream")
E("convert_errorvalue", 1, lambda S: etl.convert(S[0], ("v", "s"), lambda v: v + 1, errorvalue="E"), "stream")
E("melt_named", 1, lambda S: etl.melt(S[0], key="k", variablefield="var", valuefield="val"), "stream")
E("melt_variables_only", 1, lambda S: etl.melt(S[0], variables=["v", "s"]), "stream")
E("split_keep", 1, lambda S: etl.split(S[0], "s", "x", ["p", "q"], include_original=True), "stream rect")
E("capture_index", 1, lambda S: etl.capture(S[0], 3, "(.)(.*)", ["p", "q"], fill=["", ""]), "stream rect")
E("unpackdict_keep", 1, lambda S: etl.unpackdict(S[0], "v", keys=["p"], includeoriginal=True, missing="M"), "stream rect", cells={"v": "dict"})
E("unpack_int_newfields", 1, lambda S: etl.unpack(S[0], "v", 3, missing="M"), "stream", cells={"v": "pair"})
E("selectusingcontext_first", 1, lambda S: etl.selectusingcontext(S[0], lambda p, c, n: p is None), "stream")
E("search_flags", 1, lambda S: etl.search(S[0], "s", "X", flags=2), "stream rect")
E("rowlenselect_complement", 1, lambda S: etl.rowlenselect(S[0], 4, complement=True), "stream")
E("fieldmap_errorvalue", 1, lambda S: etl.fieldmap(S[0], collections.OrderedDict([("q", ("v", lambda v: 1 / v))]), errorvalue="E"), "stream")
# converters / mappers that fail on some cells, the policy left to petl.config.failonerror (read when the view is BUILT)
E("convert_failing", 1, lambda S: etl.convert(S[0], "v", lambda v: 1 / v), "stream")
E("fieldmap_failing", 1, lambda S: etl.fieldmap(S[0], collections.OrderedDict([("k", "k"), ("q", ("v", lambda v: 1 / v))])), "stream")
E("rowmap_failing", 1, lambda S: etl.rowmap(S[0], lambda r: [r["k"], 1 / r["v"]], ["k", "q"]), "stream")
E("rowmapmany_failing", 1, lambda S: etl.rowmapmany(S[0], lambda r: iter([[r["k"], 0], [r["k"], 1 / r["v"]]]), ["k", "q"]), "stream")
E("rowmap_failonerror_false", 1, lambda S: etl.rowmap(S[0], lambda r: [1 / r["v"]], ["q"], failonerror=False), "stream")
E("distinct_count_none", 1, lambda S, **kw: etl.distinct(S[0], count="n", **kw), "sorted presorted rect", presort=None)
E("conflicts_args", 1, lambda S, **kw: etl.conflicts(S[0], "k", missing=0, exclude="s", **kw), "sorted presorted rect", presort="k")
E("aggregate_value_multi", 1, lambda S, **kw: etl.aggregate(S[0], "k", list, ("v", "s"), field="vs", **kw), "sorted presorted", presort="k")
E("mergeduplicates_missing", 1, lambda S, **kw: etl.mergeduplicates(S[0], ("k", "j"), missing=0, **kw), "sorted presorted", presort=("k", "j"))
E("leftjoin_missing_prefix", 2, lambda S, **kw: etl.leftjoin(S[0], etl.rename(S[1], _RN0), key="k", missing="M", lprefix="l_", rprefix="r_", **kw),
  "sorted presorted", presort="k")
E("lookupjoin_missing", 2, lambda S, **kw: etl.lookupjoin(S[0], etl.rename(S[1], _RN0), key="k", missing="M", **kw), "sorted presorted", presort="k")
E("hashleftjoin_missing", 2, lambda S: etl.hashleftjoin(S[0], etl.rename(S[1], _RN0), key="k", missing="M"), "hash")
E("crossjoin_missing", 2, lambda S: etl.crossjoin(S[0], S[1], missing="M"), "")
# ---- headers --------------------------------------------------------------------------------
E("rename", 1, lambda S: etl.rename(S[0], "k", "K"), "stream")
E("rename_dict", 1, lambda S: etl.rename(S[0], {"k": "K", "v": "V"}), "stream")
E("setheader", 1, lambda S: etl.setheader(S[0], ["a", "b", "c", "d"]), "stream")
E("extendheader", 1, lambda S: etl.extendheader(S[0], ["x"]), "stream")
E("pushheader", 1, lambda S: etl.pushheader(S[0], ["a", "b", "c", "d"]), "stream", empty=[("a", "b", "c", "d"), H])
E("skip", 1, lambda S: etl.skip(etl.pushheader(S[0], ["#"]), 1), "stream")
E("prefixheader", 1, lambda S: etl.prefixheader(S[0], "p_"), "stream")
E("suffixheader", 1, lambda S: etl.suffixheader(S[0], "_s"), "stream")
E("sortheader", 1, lambda S: etl.sortheader(S[0]), "stream")
# ---- conversions ----------------------------------------------------------------------------
E("convert", 1, lambda S: etl.convert(S[0], "v", lambda v: _vi(v) + 1), "stream")
E("convert_dict", 1, lambda S: etl.convert(S[0], "k", {1: "one", None: "none"}), "stream")
E("convert_multi", 1, lambda S: etl.convert(S[0], {"v": lambda v: _vi(v) * 2, "s": "upper"}), "stream")
E("convert_where", 1, lambda S: etl.convert(S[0], "v", lambda v: -1, where=lambda r: r["k"] is None), "stream")
E("convert_passrow", 1, lambda S: etl.convert(S[0], "v", lambda v, row: (v, row["k"]), pass_row=True), "stream")
E("convertall", 1, lambda S: etl.convertall(S[0], lambda v: (v,)), "stream")
E("replace", 1, lambda S: etl.replace(S[0], "k", 1, "one"), "stream")
E("replaceall", 1, lambda S: etl.replaceall(S[0], 1, "one"), "stream")
E("update", 1, lambda S: etl.update(S[0], "v", 0), "stream")
E("convertnumbers", 1, lambda S: etl.convertnumbers(S[0]), "stream")
E("format", 1, lambda S: etl.format(S[0], "v", "{}"), "stream")
E("formatall", 1, lambda S: etl.formatall(S[0], "{}"), "stream")
E("interpolate", 1, lambda S: etl.interpolate(S[0], "v", "%s"), "stream")
E("interpolateall", 1, lambda S: etl.interpolateall(S[0], "%s"), "stream")
# ---- sorts ----------------------------------------------------------------------------------
E("sort", 1, lambda S, **kw: etl.sort(S[0], "k", **kw), "sorted")
E("sort_none", 1, lambda S, **kw: etl.sort(S[0], **kw), "sorted")
E("sort_reverse", 1, lambda S, **kw: etl.sort(S[0], ("k", "j"), reverse=True, **kw), "sorted")
E("mergesort", 2, lambda S, **kw: etl.mergesort(S[0], S[1], key="k", **kw), "sorted presorted", presort="k")
E("mergesort_reverse", 2, lambda S, **kw: etl.mergesort(S[0], S[1], key="k", reverse=True, **kw), "sorted")
E("mergesort_nokey", 2, lambda S, **kw: etl.mergesort(S[0], S[1], **kw), "sorted")
E("mergesort_three", 3, lambda S, **kw: etl.mergesort(S[0], S[1], S[2], key=("k", "j"), **kw), "sorted presorted", presort=("k", "j"))
E("mergesort_header", 2, lambda S, **kw: etl.mergesort(S[0], etl.rename(S[1], {"v": "v2"}), key="k", header=["k", "s", "v2", "zz"],
                                                       missing="M", **kw), "sorted presorted", presort="k")
# ---- selects --------------------------------------------------------------------------------
E("select", 1, lambda S: etl.select(S[0], lambda r: r["v"] is not None), "stream")
E("select_expr", 1, lambda S: etl.select(S[0], "{v} is not None"), "stream")
E("select_field", 1, lambda S: etl.select(S[0], "v", lambda v: v is not None, complement=True), "stream")
E("selectop", 1, lambda S: etl.selectop(S[0], "v", 1, operator.ne), "stream")
for _nm in ["eq", "ne", "lt", "le", "gt", "ge"]:
    E("select" + _nm, 1, lambda S, _nm=_nm: getattr(etl, "select" + _nm)(S[0], "v", 1), "stream")
E("selectcontains", 1, lambda S: etl.selectcontains(S[0], "s", "x"), "stream rect")
E("selectin", 1, lambda S: etl.selectin(S[0], "v", [1, 2]), "stream")
E("selectnotin", 1, lambda S: etl.selectnotin(S[0], "v", [1, 2]), "stream")
# auxiliary arguments that are themselves lazy views over another source (a membership collection, a column)
E("selectin_lazy", 2, lambda S: etl.selectin(S[0], "v", etl.values(S[1], "v")), "stream")
E("selectnotin_lazy", 2, lambda S: etl.selectnotin(S[0], "k", etl.values(S[1], "k")), "stream")
E("addcolumn_lazy", 2, lambda S: etl.addcolumn(S[0], "z", etl.values(S[1], "v")), "stream rect")
E("selectis", 1, lambda S: etl.selectis(S[0], "v", None), "stream")
E("selectisnot", 1, lambda S: etl.selectisnot(S[0], "v", None), "stream")
E("selectisinstance", 1, lambda S: etl.selectisinstance(S[0], "v", int), "stream")
for _nm in ["rangeopenleft", "rangeopenright", "rangeopen", "rangeclosed"]:
    E("select" + _nm, 1, lambda S, _nm=_nm: getattr(etl, "select" + _nm)(S[0], "v", 0, 2), "stream")
E("selecttrue", 1, lambda S: etl.selecttrue(S[0], "v"), "stream")
E("selectfalse", 1, lambda S: etl.selectfalse(S[0], "v"), "stream")
E("selectnone", 1, lambda S: etl.selectnone(S[0], "v"), "stream")
E("selectnotnone", 1, lambda S: etl.selectnotnone(S[0], "v"), "stream")
# (the query looks at the neighbours but does not single out the last row, so that the first k output rows
#  are a function of a prefix of the source - which is what "streaming" means for C02)
E("selectusingcontext", 1, lambda S: etl.selectusingcontext(S[0], lambda p, c, n: p is None or c["v"] != p["v"] or (n is not None and n["k"] == c["k"])), "stream")
E("rowlenselect", 1, lambda S: etl.rowlenselect(S[0], 4), "stream")
E("biselect0", 1, lambda S: etl.biselect(S[0], lambda r: r["v"] == 1)[0], "stream")
E("biselect1", 1, lambda S: etl.biselect(S[0], lambda r: r["v"] == 1)[1], "stream")
E("facet", 1, lambda S: etl.facet(S[0], "v"), "nonview eager",
  norm=lambda d: sorted(((repr(k), [tuple(r) for r in t]) for k, t in d.items())), empty=[])
# ---- joins ----------------------------------------------------------------------------------
_RN = {"v": "v2", "s": "s2", "j": "j2"}
for _nm in ["join", "leftjoin", "rightjoin", "outerjoin", "antijoin", "lookupjoin"]:
    E(_nm, 2, lambda S, _nm=_nm, **kw: getattr(etl, _nm)(S[0], etl.rename(S[1], _RN), key="k", **kw),
      "sorted presorted" + (" rect" if _nm == "antijoin" else ""), presort="k")
E("join_compound", 2, lambda S, **kw: etl.join(S[0], etl.rename(S[1], {"v": "v2", "s": "s2"}), key=("k", "j"), **kw),
  "sorted presorted", presort=("k", "j"))
E("join_lrkey", 2, lambda S, **kw: etl.join(S[0], etl.rename(S[1], {"k": "k2", "v": "v2", "s": "s2", "j": "j2"}),
                                             lkey="k", rkey="k2", lprefix="l_", rprefix="r_", **kw), "sorted presorted", presort="k")
_RNK = {"k": "k2", "v": "v2", "s": "s2", "j": "j2"}
for _nm in ["leftjoin", "rightjoin", "outerjoin", "antijoin", "lookupjoin"]:
    # the same operators with lkey/rkey, and (where the documentation allows it) with the natural key
    E(_nm + "_lrkey", 2, lambda S, _nm=_nm, **kw: getattr(etl, _nm)(S[0], etl.rename(S[1], _RNK), lkey="k", rkey="k2", **kw),
      "sorted presorted" + (" rect" if _nm == "antijoin" else ""), presort="k")
    E(_nm + "_natural", 2, lambda S, _nm=_nm, **kw: getattr(etl, _nm)(S[0], etl.cut(S[1], "k", "v"), **kw),
      "sorted presorted" + (" rect" if _nm == "antijoin" else ""), presort=("k", "v"))
E("join_natural", 2, lambda S, **kw: etl.join(S[0], etl.cut(S[1], "k", "v"), **kw), "sorted presorted", presort=("k", "v"))
E("outerjoin_missing", 2, lambda S, **kw: etl.outerjoin(S[0], etl.rename(S[1], _RN), key="k", missing="M", **kw),
  "sorted presorted", presort="k")
E("crossjoin", 2, lambda S: etl.crossjoin(S[0], S[1]), "")
E("crossjoin_prefix", 2, lambda S: etl.crossjoin(S[0], S[1], prefix=True), "")
# (with key= the documented presorted argument has nothing to switch off - both halves are `distinct` of a projection - so
#  presorted=True on input sorted by the key must simply give the default result)
E("unjoin_left", 1, lambda S, **kw: etl.unjoin(S[0], "s", key="k", **kw)[0], "sorted presorted rect", presort="k")
E("unjoin_right", 1, lambda S, **kw: etl.unjoin(S[0], "s", key="k", **kw)[1], "sorted presorted rect", presort="k")
E("unjoin_nokey_left", 1, lambda S, **kw: etl.unjoin(S[0], "s", **kw)[0], "sorted presorted rect", presort="s")
E("unjoin_nokey_right", 1, lambda S, **kw: etl.unjoin(S[0], "s", **kw)[1], "sorted presorted rect", presort="s")
for _nm in ["hashjoin", "hashleftjoin", "hashrightjoin", "hashantijoin", "hashlookupjoin"]:
    E(_nm, 2, lambda S, _nm=_nm: getattr(etl, _nm)(S[0], etl.rename(S[1], _RN), key="k"),
      "hash" + (" rect" if _nm == "hashantijoin" else ""))
for _nm in ["hashjoin", "hashleftjoin", "hashrightjoin"]:
    E(_nm + "_kw", 2, lambda S, _nm=_nm, **kw: getattr(etl, _nm)(S[0], etl.rename(S[1], _RN), key="k", **kw), "hash hashcache")
E("hashjoin_nocache", 2, lambda S: etl.hashjoin(S[0], etl.rename(S[1], _RN), key="k", cache=False), "hash")
# ---- set operations -------------------------------------------------------------------------
E("complement", 2, lambda S, **kw: etl.complement(S[0], S[1], **kw), "sorted presorted rect", presort=None)
E("complement_strict", 2, lambda S, **kw: etl.complement(S[0], S[1], strict=True, **kw), "sorted presorted rect", presort=None)
E("intersection", 2, lambda S, **kw: etl.intersection(S[0], S[1], **kw), "sorted presorted rect", presort=None)
E("recordcomplement", 2, lambda S, **kw: etl.recordcomplement(S[0], etl.cut(S[1], "s", "v", "j", "k"), **kw), "sorted rect")
E("diff0", 2, lambda S, **kw: etl.diff(S[0], S[1], **kw)[0], "sorted presorted rect", presort=None)
E("diff1", 2, lambda S, **kw: etl.diff(S[0], S[1], **kw)[1], "sorted presorted rect", presort=None)
E("recorddiff0", 2, lambda S, **kw: etl.recorddiff(S[0], etl.cut(S[1], "s", "v", "j", "k"), **kw)[0], "sorted rect")
E("recorddiff1", 2, lambda S, **kw: etl.recorddiff(S[0], etl.cut(S[1], "s", "v", "j", "k"), **kw)[1], "sorted rect")
E("hashcomplement", 2, lambda S: etl.hashcomplement(S[0], S[1]), "rect hash")
E("hashintersection", 2, lambda S: etl.hashintersection(S[0], S[1]), "rect hash")
E("hashcomplement_strict", 2, lambda S: etl.hashcomplement(S[0], S[1], strict=True), "rect hash")
# ---- dedup ----------------------------------------------------------------------------------
E("duplicates", 1, lambda S, **kw: etl.duplicates(S[0], "k", **kw), "sorted presorted rect", presort="k")
E("duplicates_none", 1, lambda S, **kw: etl.duplicates(S[0], **kw), "sorted presorted rect", presort=None)
E("unique", 1, lambda S, **kw: etl.unique(S[0], "k", **kw), "sorted presorted rect", presort="k")
E("unique_none", 1, lambda S, **kw: etl.unique(S[0], **kw), "sorted presorted rect", presort=None)
E("conflicts", 1, lambda S, **kw: etl.conflicts(S[0], "k", **kw), "sorted presorted rect", presort="k")
E("distinct", 1, lambda S, **kw: etl.distinct(S[0], **kw), "sorted presorted rect", presort=None)
E("distinct_key", 1, lambda S, **kw: etl.distinct(S[0], "k", **kw), "sorted presorted rect", presort="k")
E("distinct_count", 1, lambda S, **kw: etl.distinct(S[0], "k", count="n", **kw), "sorted presorted rect", presort="k")
E("isunique", 1, lambda S: etl.isunique(S[0], "k"), "nonview eager", norm=lambda b: b, empty=True)
# ---- reductions -----------------------------------------------------------------------------
_sumv = lambda vs: sum(_vi(v) for v in vs)  # noqa
E("rowreduce", 1, lambda S, **kw: etl.rowreduce(S[0], "k", lambda k, rows: [k, sum(1 for _ in rows)], header=["k", "n"], **kw),
  "sorted presorted", presort="k")
E("aggregate_len", 1, lambda S, **kw: etl.aggregate(S[0], "k", len, **kw), "sorted presorted", presort="k")
E("aggregate_sum", 1, lambda S, **kw: etl.aggregate(S[0], "k", _sumv, "v", **kw), "sorted presorted", presort="k")
E("aggregate_none_len", 1, lambda S: etl.aggregate(S[0], None, len), "")
E("aggregate_none_fn", 1, lambda S: etl.aggregate(S[0], None, _sumv, "v"), "")
E("aggregate_multi", 1, lambda S, **kw: etl.aggregate(S[0], "k", collections.OrderedDict([("n", len), ("vs", ("v", list))]), **kw),
  "sorted presorted", presort="k")
E("aggregate_multi_none", 1, lambda S: etl.aggregate(S[0], None, collections.OrderedDict([("n", len), ("vs", ("v", list))])), "")
E("aggregate_compound", 1, lambda S, **kw: etl.aggregate(S[0], ("k", "j"), len, **kw), "sorted presorted", presort=("k", "j"))
E("groupcountdistinctvalues", 1, lambda S: etl.groupcountdistinctvalues(S[0], "k", "v"), "")
E("groupselectfirst", 1, lambda S, **kw: etl.groupselectfirst(S[0], "k", **kw), "sorted presorted", presort="k")
E("groupselectlast", 1, lambda S, **kw: etl.groupselectlast(S[0], "k", **kw), "sorted presorted", presort="k")
E("groupselectmin", 1, lambda S, **kw: etl.groupselectmin(S[0], "k", "v", **kw), "sorted presorted", presort="k")
E("groupselectmax", 1, lambda S, **kw: etl.groupselectmax(S[0], "k", "v", **kw), "sorted presorted", presort="k")
E("mergeduplicates", 1, lambda S, **kw: etl.mergeduplicates(S[0], "k", **kw), "sorted presorted", presort="k")
E("merge", 2, lambda S, **kw: etl.merge(S[0], S[1], key="k", **kw), "sorted presorted", presort="k")
E("fold", 1, lambda S, **kw: etl.fold(S[0], "k", lambda x, y: _vi(x) + _vi(y), "v", **kw), "sorted presorted", presort="k")
# ---- fills ----------------------------------------------------------------------------------
E("filldown", 1, lambda S: etl.filldown(S[0]), "stream rect")
E("filldown_f", 1, lambda S: etl.filldown(S[0], "v"), "stream rect")
E("fillright", 1, lambda S: etl.fillright(S[0]), "stream")
E("fillleft", 1, lambda S: etl.fillleft(S[0]), "stream")
# ---- regex ----------------------------------------------------------------------------------
E("capture", 1, lambda S: etl.capture(S[0], "s", "(.)(.*)", ["p", "q"], fill=["", ""]), "stream rect")
E("capture_keep", 1, lambda S: etl.capture(S[0], "s", "(.)(.*)", ["p", "q"], include_original=True, fill=["", ""]), "stream rect")
E("split", 1, lambda S: etl.split(S[0], "s", "x", ["p", "q"], maxsplit=1), "stream rect")
E("sub", 1, lambda S: etl.sub(S[0], "s", "x", "y"), "stream rect")
E("search", 1, lambda S: etl.search(S[0], "s", "x"), "stream rect")
E("search_all", 1, lambda S: etl.search(S[0], "x"), "stream")
E("searchcomplement", 1, lambda S: etl.searchcomplement(S[0], "s", "x"), "stream rect")
E("splitdown", 1, lambda S: etl.splitdown(S[0], "s", "x"), "stream rect")
# ---- reshape --------------------------------------------------------------------------------
E("melt", 1, lambda S: etl.melt(S[0], key="k"), "stream")
E("melt_vars", 1, lambda S: etl.melt(S[0], key=["k", "j"], variables=["v"]), "stream")
E("recast", 1, lambda S: etl.recast(etl.melt(S[0], key=["k", "j"]), key=["k", "j"]), "dynhdr rect",
  empty=[("k", "j")])
E("recast_fixed", 1, lambda S: etl.recast(etl.melt(S[0], key=["k", "j"]), key=["k", "j"], variablefield="variable",
                                                 valuefield="value", samplesize=3, reducers={"v": list}), "dynhdr rect",
  empty=[("k", "j")])
E("transpose", 1, lambda S: etl.transpose(S[0]), "dynhdr rect", empty=[("k",), ("j",), ("v",), ("s",)])
E("pivot", 1, lambda S, **kw: etl.pivot(S[0], "k", "s", "v", len, **kw), "sorted presorted dynhdr rect", presort=("k", "s"),
  empty=[("k",)])
E("flatten_unflatten", 1, lambda S: etl.unflatten(etl.flatten(S[0]), 4), "stream rect", ahead=6)
E("unflatten_field", 1, lambda S: etl.unflatten(S[0], "v", 2), "stream", ahead=4, empty=[("f0", "f1")])
# ---- maps -----------------------------------------------------------------------------------
E("fieldmap", 1, lambda S: etl.fieldmap(S[0], collections.OrderedDict([("K", "k"), ("vv", ("v", lambda v: v)),
                                                                      ("kv", lambda r: (r["k"], r["v"]))])), "stream")
E("rowmap", 1, lambda S: etl.rowmap(S[0], lambda r: [r["k"], r["v"]], ["k", "v"]), "stream")
E("rowmapmany", 1, lambda S: etl.rowmapmany(S[0], lambda r: [[r["k"]], [r["v"]]], ["x"]), "stream")
E("rowgroupmap", 1, lambda S, **kw: etl.rowgroupmap(S[0], "k", lambda k, rows: [[k, len(list(rows))]], header=["k", "n"], **kw),
  "sorted presorted", presort="k")
# ---- unpacks --------------------------------------------------------------------------------
E("unpack", 1, lambda S: etl.unpack(etl.convert(S[0], "v", lambda v: [v, v]), "v", ["p", "q"]), "stream")
E("unpack_keep", 1, lambda S: etl.unpack(etl.convert(S[0], "v", lambda v: [v, v]), "v", ["p", "q"], include_original=True), "stream")
E("unpackdict", 1, lambda S: etl.unpackdict(etl.convert(S[0], "v", lambda v: {"p": v}), "v"), "stream dynhdr rect", ahead=1002,
  empty=[("k", "j", "s")])
E("unpackdict_keys", 1, lambda S: etl.unpackdict(etl.convert(S[0], "v", lambda v: {"p": v}), "v", keys=["p", "q"], samplesize=2),
  "stream rect", ahead=4)
E("unpack_direct", 1, lambda S: etl.unpack(S[0], "v", ["p", "q"]), "stream", cells={"v": "pair"})
E("unpackdict_direct", 1, lambda S: etl.unpackdict(S[0], "v", keys=["p", "q"]), "stream rect", cells={"v": "dict"})
E("unpackdict_direct_sampled", 1, lambda S: etl.unpackdict(S[0], "v"), "stream dynhdr rect", ahead=1002, cells={"v": "dict"},
  empty=[("k", "j", "s")])
E("convert_direct_listcell", 1, lambda S: etl.convert(S[0], "v", lambda v: v + [0] if isinstance(v, list) else v), "stream",
  cells={"v": "pair"})
E("sort_listcells", 1, lambda S, **kw: etl.sort(S[0], "v", **kw), "sorted", cells={"v": "pair"})
# ---- validation -----------------------------------------------------------------------------
E("validate", 1, lambda S: etl.validate(S[0], constraints=[dict(name="vint", field="v", test=int)], header=H), "stream")
# ---- util views -----------------------------------------------------------------------------
E("values", 1, lambda S: etl.values(S[0], "v"), "stream nonview", norm=lambda it: list(it), empty=[])
E("values_multi", 1, lambda S: etl.values(S[0], "v", "k"), "stream nonview", norm=lambda it: list(it), empty=[])
E("data", 1, lambda S: etl.data(S[0]), "stream nonview", norm=lambda it: [tuple(r) for r in it], empty=[])
E("dicts", 1, lambda S: etl.dicts(S[0]), "stream nonview", norm=lambda it: [sorted(d.items(), key=repr) for d in it], empty=[])
E("records", 1, lambda S: etl.records(S[0]), "stream nonview", norm=lambda it: [tuple(r) for r in it], empty=[])
E("namedtuples", 1, lambda S: etl.namedtuples(S[0]), "stream nonview", norm=lambda it: [tuple(r) for r in it], empty=[])
E("header", 1, lambda S: etl.header(S[0]), "nonview", norm=tuple, empty=H)
E("fieldnames", 1, lambda S: etl.fieldnames(S[0]), "nonview", norm=tuple, empty=H)
E("wrap", 1, lambda S: etl.wrap(S[0]), "stream")
E("cache", 1, lambda S: _cache(S[0]), "stream")
E("cache_n2", 1, lambda S: _cache(S[0], n=2), "stream")
E("cache_n0", 1, lambda S: _cache(S[0], n=0), "stream")
E("cache_n1", 1, lambda S: _cache(S[0], n=1), "stream")
E("progress", 1, lambda S: etl.progress(S[0], 2, out=io.StringIO()), "stream")
E("log_progress", 1, lambda S: etl.log_progress(S[0], 2), "stream")
E("clock", 1, lambda S: etl.clock(S[0]), "stream")
E("valuecounts", 1, lambda S: etl.valuecounts(S[0], "k"), "")
E("valuecounter", 1, lambda S: etl.valuecounter(S[0], "k"), "nonview eager", norm=lambda c: sorted(c.items(), key=repr), empty=[])
E("valuecount", 1, lambda S: etl.valuecount(S[0], "k", 1), "nonview eager needrows", norm=lambda t: t)
E("typecounts", 1, lambda S: etl.typecounts(S[0], "v"), "")
E("typecounter", 1, lambda S: etl.typecounter(S[0], "v"), "nonview eager", norm=lambda c: sorted(c.items()), empty=[])
E("parsecounts", 1, lambda S: etl.parsecounts(S[0], "s"), "rect",
  empty=[("type", "count", "errors"), ("int", 0, 0), ("float", 0, 0)])
E("stringpatterns", 1, lambda S: etl.stringpatterns(S[0], "s"), "eager rect")
E("rowlengths", 1, lambda S: etl.rowlengths(S[0]), "eager")
E("nrows", 1, lambda S: etl.nrows(S[0]), "nonview eager", norm=lambda n: n, empty=0)
E("look", 1, lambda S: etl.look(S[0]), "stream nonview", norm=str, ahead=7)
E("lookall", 1, lambda S: etl.lookall(S[0]), "nonview", norm=str)
E("see", 1, lambda S: etl.see(S[0]), "stream nonview", norm=str, ahead=7)
E("listoflists", 1, lambda S: etl.listoflists(S[0]), "nonview eager", norm=lambda x: [tuple(r) for r in x], empty=[H])
E("listoftuples", 1, lambda S: etl.listoftuples(S[0]), "nonview eager", norm=lambda x: [tuple(r) for r in x], empty=[H])
E("tupleoflists", 1, lambda S: etl.tupleoflists(S[0]), "nonview eager", norm=lambda x: [tuple(r) for r in x], empty=[H])
E("tupleoftuples", 1, lambda S: etl.tupleoftuples(S[0]), "nonview eager", norm=lambda x: [tuple(r) for r in x], empty=[H])
E("parsecounter", 1, lambda S: etl.parsecounter(S[0], "s"), "nonview eager rect", norm=lambda t: (sorted(t[0].items()), sorted(t[1].items())),
  empty=([('float', 0), ('int', 0)], [('float', 0), ('int', 0)]))
E("stringpatterncounter", 1, lambda S: etl.stringpatterncounter(S[0], "s"), "nonview eager rect", norm=lambda c: sorted(c.items()), empty=[])
E("columns", 1, lambda S: etl.columns(S[0]), "nonview eager rect", norm=lambda d: list(d.items()),
  empty=[(f, []) for f in H])
E("facetcolumns", 1, lambda S: etl.facetcolumns(S[0], "k"), "nonview eager rect",
  norm=lambda d: sorted(((repr(k), sorted(v.items())) for k, v in d.items())), empty=[])
E("issorted", 1, lambda S: etl.issorted(S[0], "k"), "nonview eager", norm=lambda b: b, empty=True)
E("issorted_none", 1, lambda S: etl.issorted(S[0]), "nonview eager", norm=lambda b: b, empty=True)
E("limits", 1, lambda S: etl.limits(etl.selectisinstance(S[0], "v", int), "v"), "nonview eager needrows", norm=lambda t: t)
E("stats", 1, lambda S: etl.stats(S[0], "v"), "nonview eager", norm=lambda t: tuple(t)[:3], empty=(0, 0, 0))
E("typeset", 1, lambda S: etl.typeset(S[0], "v"), "nonview eager", norm=lambda s: sorted(s), empty=[])
E("diffheaders", 2, lambda S: etl.diffheaders(S[0], etl.rename(S[1], "k", "K")), "nonview",
  norm=lambda t: (sorted(t[0]), sorted(t[1])), empty=(["K"], ["k"]))
E("diffvalues", 2, lambda S: etl.diffvalues(S[0], S[1], "v"), "nonview eager",
  norm=lambda t: (sorted(t[0], key=repr), sorted(t[1], key=repr)), empty=([], []))
for _nm in ["lookup", "lookupone", "dictlookup", "dictlookupone", "recordlookup", "recordlookupone"]:
    E(_nm, 1, lambda S, _nm=_nm: getattr(etl, _nm)(S[0], "k"), "nonview eager rect",
      norm=lambda d: sorted(((repr(k), repr(v)) for k, v in d.items())), empty=[])
E("rowgroupby", 1, lambda S: etl.rowgroupby(S[0], "k"), "nonview",
  norm=lambda g: [(k, [tuple(r) for r in rows]) for k, rows in g], empty=[])
# ---- dict / column round trips -----------------------------------------------------------------
E("fromdicts_header", 1, lambda S: etl.fromdicts(list(etl.dicts(S[0])), header=list(H)), "")
E("fromdicts_sample", 1, lambda S: etl.fromdicts(list(etl.dicts(S[0]))), "dynhdr", empty=[()])
class _IterOnly(object):
    def __init__(self, items):
        self._items = items

    def __iter__(self):
        return iter(self._items)


# re-iterable containers of dicts that are neither list nor tuple nor generator
E("fromdicts_iteronly_header", 1, lambda S: etl.fromdicts(_IterOnly(list(etl.dicts(S[0]))), header=list(H)), "")
E("fromdicts_dictsview_header", 1, lambda S: etl.fromdicts(etl.dicts(S[0]), header=tuple(H)), "")
E("fromdicts_gen_header", 1, lambda S: etl.fromdicts((d for d in list(etl.dicts(S[0]))), header=list(H)), "oneshot")
E("fromdicts_gen", 1, lambda S: etl.fromdicts((d for d in list(etl.dicts(S[0])))), "oneshot dynhdr", empty=[()])
E("fromcolumns", 1, lambda S: etl.fromcolumns([list(etl.values(S[0], f)) for f in H], header=list(H)), "")
# ---- sources without table inputs ------------------------------------------------------------------
E("randomtable", 0, lambda S: etl.randomtable(3, 4, seed=7), "random")
E("dummytable", 0, lambda S: etl.dummytable(4, seed=7), "random")
E("empty_addcolumn", 0, lambda S: etl.empty().addcolumn("a", [1, 2, 3]), "random")
E("fromcolumns_ragged", 0, lambda S: etl.fromcolumns([[1, 2, 3], ["a", "b"]]), "random")


def names(flag=None, exclude=()):
    return [n for n, e in ENTRIES.items() if (flag is None or e.has(flag)) and not (e.flags & set(exclude))]


def get(name):
    return ENTRIES[name]


# ---- extractors reading a file written by the harness (stdlib writers, not petl) ---------------
def _strrows(t):
    return [["" if c is None else str(c) for c in r] for r in t]


def _prep_csv(S, tmp, delimiter=","):
    import csv
    import os
    p = os.path.join(tmp, "in.csv")
    with open(p, "w", newline="", encoding="utf-8") as f:
        csv.writer(f, delimiter=delimiter).writerows(_strrows(S[0]))
    return p


def _prep_pickle(S, tmp):
    import os
    import pickle
    p = os.path.join(tmp, "in.p")
    with open(p, "wb") as f:
        for r in S[0]:
            pickle.dump(tuple(r), f, protocol=-1)
    return p


def _prep_text(S, tmp):
    import os
    p = os.path.join(tmp, "in.txt")
    with open(p, "w", encoding="utf-8") as f:
        for r in list(S[0])[1:]:
            f.write(" ".join(repr(c) for c in r).replace("\n", " ") + "\n")
    return p


def _jsonable(v):
    return v if v is None or isinstance(v, (bool, int, float, str)) else repr(v)


def _prep_json(S, tmp, lines=False):
    import json
    import os
    t = list(S[0])
    hdr = [str(f) for f in t[0]]
    recs = [dict((h, _jsonable(c)) for h, c in zip(hdr, list(r) + [None] * len(hdr))) for r in t[1:]]
    p = os.path.join(tmp, "in.json")
    with open(p, "w") as f:
        if lines:
            for d in recs:
                f.write(json.dumps(d) + "\n")
        else:
            json.dump(recs, f)
    return p


def _prep_db(S, tmp):
    import os
    import sqlite3
    t = list(S[0])
    p = os.path.join(tmp, "in.db")
    con = sqlite3.connect(p)
    con.execute("create table t (%s)" % ", ".join('"%s"' % f for f in t[0]))
    n = len(t[0])
    for r in t[1:]:
        r = (list(r) + [None] * n)[:n]
        con.execute("insert into t values (%s)" % ",".join("?" * n), [_jsonable(c) if not isinstance(c, bytes) else c for c in r])
    con.commit()
    con.close()
    return p


def _prep_xml(S, tmp):
    import os
    from xml.sax.saxutils import escape
    t = _strrows(S[0])
    p = os.path.join(tmp, "in.xml")
    with open(p, "w", encoding="utf-8") as f:
        f.write("<table>")
        f.write("<tr>" + "".join("<th>%s</th>" % escape(c) for c in t[0]) + "</tr>")
        for r in t[1:]:
            f.write("<tr>" + "".join("<td>%s</td>" % escape("".join(ch for ch in c if ch >= " ")) for c in r) + "</tr>")
        f.write("</table>")
    return p


def _sqlite_connect(p):
    import sqlite3
    return sqlite3.connect(p)


def _mem(p):
    return etl.MemorySource(open(p, "rb").read())


E("fromcsv_mem", 1, lambda S, p: etl.fromcsv(_mem(p), encoding="utf-8"), "file", prepare=_prep_csv)
E("frompickle_mem", 1, lambda S, p: etl.frompickle(_mem(p)), "file", prepare=_prep_pickle)
E("fromjson_lines_mem", 1, lambda S, p: etl.fromjson(_mem(p), lines=True, header=list(H)), "file", prepare=lambda S, tmp: _prep_json(S, tmp, True))
E("fromtext_mem", 1, lambda S, p: etl.fromtext(_mem(p), encoding="utf-8"), "file", prepare=_prep_text)
E("fromcsv", 1, lambda S, p: etl.fromcsv(p, encoding="utf-8"), "file stream", prepare=_prep_csv)
E("fromcsv_header", 1, lambda S, p: etl.fromcsv(p, header=["a", "b", "c", "d"], encoding="utf-8"), "file stream", prepare=_prep_csv,
  empty=[("a", "b", "c", "d"), H])
E("fromtsv", 1, lambda S, p: etl.fromtsv(p, encoding="utf-8"), "file stream", prepare=lambda S, tmp: _prep_csv(S, tmp, "\t"))
E("frompickle", 1, lambda S, p: etl.frompickle(p), "file stream", prepare=_prep_pickle)
E("fromtext", 1, lambda S, p: etl.fromtext(p, encoding="utf-8"), "file stream", prepare=_prep_text)
E("fromtext_header", 1, lambda S, p: etl.fromtext(p, encoding="utf-8", header=["L"], strip="\n"), "file stream", prepare=_prep_text)
E("fromjson", 1, lambda S, p: etl.fromjson(p, header=list(H)), "file", prepare=_prep_json)
E("fromjson_sample", 1, lambda S, p: etl.fromjson(p), "file dynhdr", prepare=_prep_json, empty=[()])
E("fromjson_lines", 1, lambda S, p: etl.fromjson(p, lines=True, header=list(H)), "file stream",
  prepare=lambda S, tmp: _prep_json(S, tmp, True))
E("fromdb_name", 1, lambda S, p: etl.fromdb(p, "select * from t"), "file", prepare=_prep_db)
E("fromdb_conn", 1, lambda S, p: etl.fromdb(_sqlite_connect(p), "select * from t"), "file", prepare=_prep_db)
E("fromdb_cursorfn", 1, lambda S, p: etl.fromdb(lambda: _sqlite_connect(p).cursor(), "select * from t"), "file", prepare=_prep_db)
E("fromxml", 1, lambda S, p: etl.fromxml(p, "tr", ("th", "td")), "file", prepare=_prep_xml)
