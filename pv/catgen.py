"""Strategies producing sources for catalogue entries (shared by C01, C02, C03, C11)."""
from hypothesis import strategies as st

from pv import catalog, gen

KEYS = [None, 0, 1, 2, 1.0, "a", "b", True, ""]
VALS = [None, 0, 1, 2, 3, 5]
TEXT = ["x", "xay", "b,x", "", "xx", "q", "#c"]


@st.composite
def cat_table(draw, ragged=False, max_rows=5, min_rows=0, cells=None, ragged_min=0):
    p = draw(st.lists(st.sampled_from(KEYS), min_size=2, max_size=4))
    kcell = st.sampled_from(p)
    cols = [kcell, kcell, st.sampled_from(VALS), st.sampled_from(TEXT)]
    for f, kind in (cells or {}).items():
        v = st.sampled_from(VALS)
        cols[catalog.H.index(f)] = (st.lists(v, min_size=2, max_size=2) if kind == "pair"
                                    else st.fixed_dictionaries({"p": v}, optional={"q": v}))
    t = draw(gen.table(list(catalog.H), cols, max_rows=max_rows, min_rows=min_rows, ragged=ragged,
                       extra=st.sampled_from(VALS), ragged_min=ragged_min))
    return t


@st.composite
def cat_case(draw, names, max_rows=5, min_rows=0, allow_ragged=True, ragged_min=0):
    name = draw(st.sampled_from(names))
    e = catalog.get(name)
    ragged = allow_ragged and not e.has("rect") and draw(st.booleans())
    S = [draw(cat_table(ragged=ragged, max_rows=max_rows, min_rows=min_rows, cells=e.cells, ragged_min=ragged_min)) for _ in range(e.n)]
    # whole rows shared between the inputs (set operations and natural joins only have work to do then)
    if e.n >= 2 and len(S[0]) > 1 and draw(st.booleans()):
        for t in S[1:]:
            for r in draw(st.lists(st.sampled_from(S[0][1:]), min_size=1, max_size=3)):
                t.insert(draw(st.integers(1, len(t))), list(r))
    return {"entry": name, "sources": S}


def build(e, S, tmp=None, res=None, **kw):
    """tmp: scratch dir for file entries (the file is written there by the harness), or pass the
    already prepared resource as res."""
    if e.has("file"):
        return e.build(S, res if res is not None else e.prepare(S, tmp))
    if kw:
        return e.build(S, **kw)
    return e.build(S)


# ---- the same table in the different container forms petl accepts ---------------------------------------------------
class IterOnly(object):
    """A table container that offers nothing but __iter__ (re-iterable)."""

    def __init__(self, rows):
        self._rows = rows

    def __iter__(self):
        return iter(self._rows)


class SeqRow(object):
    """A data row that is a sequence but neither a list nor a tuple (like a DB driver's row object): len(), indexing,
    slicing (gives a tuple, as sqlite3.Row does), iteration, equality with any sequence of the same cells."""

    __slots__ = ("_c",)

    def __init__(self, cells):
        self._c = tuple(cells)

    def __len__(self):
        return len(self._c)

    def __getitem__(self, i):
        return self._c[i]

    def __iter__(self):
        return iter(self._c)

    def __eq__(self, o):
        try:
            return tuple(o) == self._c
        except TypeError:
            return False

    def __ne__(self, o):
        return not self.__eq__(o)

    def __hash__(self):
        return hash(self._c)

    def __repr__(self):
        return "SeqRow(%r)" % (self._c,)


FORMS = ["lists", "tuples", "list-of-tuples", "tuple-header", "iteronly", "iteronly-tuples", "seqrows"]


def shape(table, form):
    """`table` (list of lists) as a tuple of tuples, a list of tuples, lists under a tuple header, or an object with only
    __iter__ (over lists / over tuples)."""
    if form == "tuples":
        return tuple(tuple(r) for r in table)
    if form == "list-of-tuples":
        return [tuple(r) for r in table]
    if form == "tuple-header":
        return [tuple(table[0])] + [list(r) for r in table[1:]] if table else table
    if form == "iteronly":
        return IterOnly([list(r) for r in table])
    if form == "iteronly-tuples":
        return IterOnly(tuple(tuple(r) for r in table))
    if form == "seqrows":
        return [list(table[0])] + [SeqRow(r) for r in table[1:]] if table else table
    return table
