"""Case <-> text.  Cases are plain data: None, bool, int, float, str, bytes, Decimal, date,
datetime, time, list, tuple, dict (str keys or scalar keys).  The text form is a Python
expression evaluated in a closed namespace, so list-vs-tuple, 1-vs-1.0-vs-True and
Decimal/date values survive a round trip exactly (json would lose them)."""
import datetime as _dt
import hashlib
import math
from decimal import Decimal
from fractions import Fraction


def dumps(x, indent=None):
    return _fmt(x)


def _fmt(x):
    if x is None or isinstance(x, (bool, int)):
        return repr(x)
    if isinstance(x, float):
        if math.isnan(x):
            return "nan"
        if math.isinf(x):
            return "inf" if x > 0 else "-inf"
        return repr(x)
    if isinstance(x, (str, bytes)):
        return repr(x)
    if isinstance(x, Decimal):
        return "Decimal(%r)" % str(x)
    if isinstance(x, Fraction):
        return "Fraction(%d, %d)" % (x.numerator, x.denominator)
    if isinstance(x, _dt.datetime):
        return "datetime(%d,%d,%d,%d,%d,%d,%d)" % (x.year, x.month, x.day, x.hour, x.minute,
                                                   x.second, x.microsecond)
    if isinstance(x, _dt.date):
        return "date(%d,%d,%d)" % (x.year, x.month, x.day)
    if isinstance(x, _dt.time):
        return "time(%d,%d,%d,%d)" % (x.hour, x.minute, x.second, x.microsecond)
    if isinstance(x, list):
        return "[" + ", ".join(_fmt(v) for v in x) + "]"
    if isinstance(x, tuple):
        if len(x) == 1:
            return "(" + _fmt(x[0]) + ",)"
        return "(" + ", ".join(_fmt(v) for v in x) + ")"
    if isinstance(x, dict):
        return "{" + ", ".join(_fmt(k) + ": " + _fmt(v) for k, v in x.items()) + "}"
    if isinstance(x, (set, frozenset)):
        return "set([" + ", ".join(sorted(_fmt(v) for v in x)) + "])"
    raise TypeError("codec cannot encode %r (%s)" % (x, type(x)))


_NS = {
    "__builtins__": {},
    "None": None, "True": True, "False": False,
    "Decimal": Decimal, "Fraction": Fraction, "datetime": _dt.datetime, "date": _dt.date, "time": _dt.time,
    "inf": float("inf"), "nan": float("nan"), "set": set,
}


def loads(s):
    return eval(s, dict(_NS))  # closed namespace; input is our own replay files


def digest(x):
    """Stable 64-bit digest of a case (for counting distinct cases)."""
    return hashlib.blake2b(_fmt(x).encode("utf-8", "surrogatepass"), digest_size=8).digest()


def short(x, limit=600):
    s = _fmt(x)
    return s if len(s) <= limit else s[:limit] + "...<%d chars>" % len(s)


# ---- structural, type-strict equality and copying (C03, pickle round trips) ------------------

def strict_eq(a, b):
    """Same type, same structure, same values, recursively (1 != 1.0 != True here)."""
    if type(a) is not type(b):
        return False
    if isinstance(a, (list, tuple)):
        return len(a) == len(b) and all(strict_eq(x, y) for x, y in zip(a, b))
    if isinstance(a, dict):
        return (len(a) == len(b) and list(a.keys()) == list(b.keys())
                and all(strict_eq(a[k], b[k]) for k in a))
    if isinstance(a, float):
        return (a == b and math.copysign(1, a) == math.copysign(1, b)) or (a != a and b != b)
    return a == b


def snapshot(x):
    """Structural deep copy that preserves container types for list/tuple/dict and shares
    immutable scalars.  Tuple subclasses (petl Record, namedtuples) become plain tuples tagged
    with their type name, because they cannot be deep-copied."""
    if isinstance(x, list):
        return [snapshot(v) for v in x]
    if isinstance(x, tuple):
        if type(x) is tuple:
            return tuple(snapshot(v) for v in x)
        return ("<%s>" % type(x).__name__,) + tuple(snapshot(v) for v in x)
    if isinstance(x, dict):
        return {k: snapshot(v) for k, v in x.items()}
    return x
