"""Core types shared by the runner and the property modules."""
import os
import shutil
import tempfile

REPO = os.environ.get("PV_REPO", "/repo")


class Fail(object):
    __slots__ = ("bucket", "detail")

    def __init__(self, bucket, detail=""):
        self.bucket = bucket
        detail = detail if isinstance(detail, str) else repr(detail)
        # (cases at scale can make a report of megabytes: keep both ends)
        self.detail = detail if len(detail) <= 6000 else detail[:4000] + " ...<%d chars>... " % (len(detail) - 5500) + detail[-1500:]

    def __repr__(self):
        return "Fail(%r, %r)" % (self.bucket, self.detail[:300])


class Sub(object):
    def __init__(self, name, check, strategy=None, enumerate=None, quick=1000, thorough=None,
                 shards=None, doc="", tiers=("quick", "thorough")):
        self.name = name
        self.check = check
        self.strategy = strategy
        self.enumerate = enumerate
        self.budget = {"quick": quick, "thorough": thorough if thorough is not None else quick * 10}
        self.shards = shards
        self.doc = doc
        self.tiers = tiers


class Ctx(object):
    """Per-case context handed to check()."""

    def __init__(self, tier, scratch):
        self.tier = tier
        self._scratch = scratch
        self.labels = []
        self.is_nontrivial = False
        self._n = 0
        self._dirs = []

    def label(self, *names):
        self.labels.extend(names)

    def nontrivial(self, flag=True):
        if flag:
            self.is_nontrivial = True

    def tmpdir(self):
        self._n += 1
        d = tempfile.mkdtemp(prefix="c%d-" % self._n, dir=self._scratch)
        self._dirs.append(d)
        return d

    def cleanup(self):
        for d in self._dirs:
            shutil.rmtree(d, ignore_errors=True)
        self._dirs = []


def petl_frame(exc):
    """Innermost traceback frame that lies inside the petl package, as 'file.py:func'.
    Follows __cause__/__context__ (a StopIteration escaping a petl generator surfaces as a
    RuntimeError whose own traceback has no petl frame)."""
    root = os.path.join(os.path.realpath(REPO), "petl") + os.sep
    seen = 0
    while exc is not None and seen < 5:
        tb = exc.__traceback__
        found = None
        while tb is not None:
            fn = os.path.realpath(tb.tb_frame.f_code.co_filename)
            if fn.startswith(root) and os.sep + "test" + os.sep not in fn:
                found = "%s:%s" % (os.path.relpath(fn, root), tb.tb_frame.f_code.co_name)
            tb = tb.tb_next
        if found:
            return found
        exc = exc.__cause__ or exc.__context__
        seen += 1
    return None


def exc_fail(prefix, exc):
    """A Fail for an exception that escaped petl where the property says the call is total."""
    where = petl_frame(exc) or "outside-petl"
    try:
        msg = str(exc)[:300]
    except Exception:  # an exception class whose __str__ itself fails
        msg = repr(exc.args)[:300]
    return Fail("%s/exc:%s@%s" % (prefix, type(exc).__name__, where), "%s: %s" % (type(exc).__name__, msg))


def two_iterators(view, lag=0, norm=tuple):
    """Rows seen by two live iterators over one view: A is first advanced `lag` items on its own, then B and A are advanced
    in turn until both are exhausted.  Returns (rows_a, rows_b).  (Iterator independence is C01's business; the per-operator
    checks use this so that state an operator keeps on the view - a shared buffer, counter or file position - is exercised
    by their own generators too.)"""
    a, b = iter(view), iter(view)
    ra, rb = [], []
    done_a = done_b = False
    for _ in range(lag):
        try:
            ra.append(norm(next(a)))
        except StopIteration:
            done_a = True
            break
    while not (done_a and done_b):
        if not done_b:
            try:
                rb.append(norm(next(b)))
            except StopIteration:
                done_b = True
        if not done_a:
            try:
                ra.append(norm(next(a)))
            except StopIteration:
                done_a = True
    return ra, rb
