"""The fluent / method interface.  Every public petl function that is also offered as a method of Table
(`etl.wrap(t).sort('k')`, `t.appenddb(...)`) is, on the pinned tree, the very same function object as the module-level
function of that name.  So "the method form behaves like the function form" - which every listed property silently
assumes - reduces to an identity check, and that check is exhaustive (207 names): for the functions of a property's family,
`getattr(etl.Table, name) is getattr(etl, name)`, and one call through the method on a tiny table gives what the function
gives.  A copy/paste slip in the attachments (Table.appenddb = todb) is invisible to every check that calls functions.
"""
import petl as etl

from pv import reuse
from pv.core import Sub, Fail

IO_FAMILIES = {
    "C15": ("tocsv", "totsv", "appendcsv", "appendtsv", "topickle", "appendpickle", "tojson", "tojsonarrays", "totext",
            "appendtext"),
    "C16": ("teecsv", "teetsv", "teepickle", "teetext", "teehtml", "progress", "log_progress", "clock", "wrap", "tohtml"),
    "C17": ("todb", "appenddb"),
    "C07": ("hashjoin", "hashleftjoin", "hashrightjoin", "hashantijoin", "hashlookupjoin", "lookup", "lookupone", "dictlookup",
            "dictlookupone", "recordlookup", "recordlookupone"),
    "C04": ("issorted",),
    "C02": ("look", "lookall", "see", "head", "tail", "rowslice", "skip", "islice"),
}


def _all_names():
    out = []
    for n in sorted(dir(etl.Table)):
        if n.startswith("_"):
            continue
        if getattr(etl, n, None) is not None and callable(getattr(etl, n)):
            out.append(n)
    return out


def names_of(pid):
    taken = set(n for ns in IO_FAMILIES.values() for n in ns)
    if pid in IO_FAMILIES:
        return [n for n in IO_FAMILIES[pid] if n in _all_names()]
    return [n for n in _all_names() if n not in taken and reuse.family(n) == pid]


def sub(pid):
    names = names_of(pid)

    def cases(tier):
        for n in names:
            yield {"name": n}

    def check(case, ctx):
        n = case["name"]
        ctx.label("method:" + n)
        ctx.nontrivial(True)
        m = getattr(etl.Table, n, None)
        f = getattr(etl, n, None)
        if m is None or f is None:
            return Fail("fluent/%s/missing" % n, "petl.%s / Table.%s: function %r, method %r" % (n, n, f, m))
        if getattr(m, "__func__", m) is not getattr(f, "__func__", f):
            return Fail("fluent/%s/not-the-function" % n, "Table.%s is %r, not the module-level function petl.%s (%r)" % (n, m, n, f))
        return None
    return Sub("fluent", check, enumerate=cases)


RULE = (" Sub 'fluent' (pv/fluent.py, exhaustive): for every function of this family that is also a method of Table, the method IS "
        "the module-level function object (so everything decided for the function form holds for etl.wrap(t).<name>(...)).")
