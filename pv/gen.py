"""Hypothesis strategies shared by the property modules: value domain, pools, tables."""
import datetime as dt
from decimal import Decimal

from hypothesis import strategies as st

# ---- value domain V of C04 (no NaN, naive datetimes only) ----------------------------------

NUMS = [False, True, 0, 1, -1, 2, 3, 10, 2 ** 70, -(2 ** 70), 0.0, 1.0, 2.5, -1.5, 1e300,
        float("inf"), float("-inf"), Decimal("1"), Decimal("2.5"), Decimal("-3"), Decimal("1E+30")]
TEXTS = ["", "a", "b", "ab", "B", "1", "10", "2", "\xe9", "z"]
BYTES = [b"", b"a", b"b", b"ab", b"\xff", b"1"]
DATES = [dt.date(2020, 1, 1), dt.date(2020, 1, 2), dt.date(1999, 12, 31)]
DATETIMES = [dt.datetime(2020, 1, 1, 0, 0), dt.datetime(2020, 1, 1, 12, 30), dt.datetime(1999, 12, 31, 23, 59, 59)]
TIMES = [dt.time(0, 0), dt.time(12, 30), dt.time(23, 59, 59)]

none = st.none()
num = st.one_of(st.sampled_from(NUMS), st.integers(-4, 4),
                st.floats(allow_nan=False, allow_infinity=True, width=32),
                st.decimals(allow_nan=False, allow_infinity=False, min_value=-100, max_value=100, places=1))
text = st.one_of(st.sampled_from(TEXTS), st.text(alphabet="ab1Z\xe9", max_size=3))
binary = st.one_of(st.sampled_from(BYTES), st.binary(max_size=2))
temporal = st.one_of(st.sampled_from(DATES), st.sampled_from(DATETIMES), st.sampled_from(TIMES))

scalar = st.one_of(none, num, num, text, text, binary, temporal)
hashable = scalar  # K: every scalar of V is hashable


def nested(depth=2, leaf=scalar, max_len=3):
    """V: scalars plus lists/tuples of V to the given depth."""
    s = leaf
    for _ in range(depth):
        inner = s
        s = st.one_of(leaf, leaf,
                      st.lists(inner, max_size=max_len),
                      st.lists(inner, max_size=max_len).map(tuple))
    return s


value = nested(2)
# hashable nested: tuples only
hvalue = st.one_of(scalar, scalar, st.lists(scalar, max_size=2).map(tuple))


def pool(elements=scalar, min_size=2, max_size=6):
    return st.lists(elements, min_size=min_size, max_size=max_size)


def from_pool(p):
    return st.sampled_from(p)


# small key pool favouring equal-but-differently-typed and None keys
KEYISH = [None, 0, 1, 1.0, True, Decimal("1"), 2, "a", "b", b"a", "1", dt.date(2020, 1, 1), 2.5, ""]
keyish = st.one_of(st.sampled_from(KEYISH), st.sampled_from(KEYISH), scalar)

fieldname = st.sampled_from(["k", "j", "a", "b", "c", "v", "w", "x", "y", "id", "foo", "bar", "K", "n", "0", "1"])


@st.composite
def header(draw, n=None, min_n=1, max_n=4, unique=True, names=fieldname):
    if n is None:
        n = draw(st.integers(min_n, max_n))
    return draw(st.lists(names, min_size=n, max_size=n, unique=unique))


def sizes(lo, hi):
    """Sizes lo..hi, mid-range first: Hypothesis favours (and shrinks towards) the first
    element of sampled_from, and a plain integers(lo, hi) produced ~35% zero-row tables."""
    mid = (lo + hi + 1) // 2
    order = sorted(range(lo, hi + 1), key=lambda v: (abs(v - mid), v))
    return st.sampled_from(order)


@st.composite
def table(draw, hdr, cols, max_rows=6, min_rows=0, ragged=False, id_col=None, extra=scalar,
          ragged_odds=None, ragged_min=0):
    """hdr: list of field names; cols: one cell strategy per field (id_col index gets the row
    number).  ragged: about one row in `ragged_odds` gets a length in 0..n+1 (default: usually one
    in four, sometimes every second or every row - so that some tables have no full-length row)."""
    n = len(hdr)
    nrows = draw(sizes(min_rows, max_rows))
    if ragged and ragged_odds is None:
        ragged_odds = draw(st.sampled_from([4, 4, 4, 2, 1]))
    rows = []
    for i in range(nrows):
        row = [i if j == id_col else draw(cols[j]) for j in range(n)]
        if ragged and draw(st.integers(0, ragged_odds - 1)) == 0:
            ln = draw(st.integers(min(ragged_min, n), n + 1))
            row = (row + [draw(extra)])[:ln]
        rows.append(row)
    return [list(hdr)] + rows


def rows_of(tbl):
    return [tuple(r) for r in tbl[1:]]


def square(tbl, missing=None):
    """Rows padded with `missing` / trimmed to the header's length, as tuples."""
    n = len(tbl[0])
    return [tuple(tbl[0])] + [tuple((list(r) + [missing] * n)[:n]) for r in tbl[1:]]


def buffersizes(n):
    """Interesting buffersizes for a table of n rows (None = default)."""
    c = []
    for b in (max(1, n), max(1, n - 1), n + 1, 2, 1, 3, 2 * n + 1, None):
        if b not in c:
            c.append(b)
    return st.sampled_from(c)


# numbers of different type that are very close but not equal (a comparison that goes through float() loses them)
NEAR = [(Decimal("0.1"), 0.1), (Decimal(10 ** 16 + 1), 1e16), (Decimal(2 ** 63 - 1), float(2 ** 63)), (10 ** 16 + 1, 1e16),
        (Decimal("-0.3"), -0.3), (Decimal("1E+400"), float("inf"))]
TWINS = {0: [0.0, False, Decimal("0")], 1: [1.0, True, Decimal("1")], 2: [2.0, Decimal("2")], -1: [-1.0, Decimal("-1")],
         3: [3.0, Decimal("3")], 10: [10.0, Decimal("10")]}


HASH_TWINS = [(-1, -2), (-1.0, -2), (0, 2 ** 61 - 1), ("", 0), (1, 2 ** 61), ("", 0.0)]
SEQ_TWINS = [([1, 2], (1, 2)), ([], ()), ([None], (None,)), (["a", 1], ("a", 1)), ([[1]], ((1,),)), ([1, [2, 3]], (1, (2, 3)))]
# same prefix, then values that only the ordering (not native comparison) can tell apart
SEQ_NEAR = [((1, b"a"), (1, "a")), ((1, None), (1, 0)), (("a", b""), ("a", "")), ((None, 1), (None, "1")), ((1, (2,)), (1, 2))]


@st.composite
def twinned_pool(draw, elements=keyish, min_size=2, max_size=5, seq_twins=False):
    """A small pool that, half of the time, is made to contain values that are == but of different type (1, 1.0, True,
    Decimal(1)) - by construction, not by luck: equal keys of different type are where grouping, joining and dedup logic
    that compares with anything but == goes wrong."""
    p = draw(st.lists(elements, min_size=min_size, max_size=max_size))
    if draw(st.booleans()):
        base = draw(st.sampled_from(sorted(TWINS)))
        p.append(base)
        p.append(draw(st.sampled_from(TWINS[base])))
        if draw(st.booleans()):
            p.append(draw(st.sampled_from(TWINS[base])))
    if draw(st.integers(0, 5)) == 0:
        p.extend(draw(st.sampled_from(NEAR)))
    if draw(st.integers(0, 5)) == 0:
        # two DIFFERENT values with the same hash (CPython: hash(-1) == hash(-2), hash('') == hash(0) == hash(2**61 - 1)):
        # whatever counts or looks rows up by hash alone mixes them up
        p.extend(draw(st.sampled_from(HASH_TWINS)))
    if seq_twins and draw(st.integers(0, 3)) == 0:
        # the same sequence once as a list and once as a tuple (they tie under the ordering), and / or two sequences that
        # differ only behind a common prefix, in a position where native comparison gives up
        a, b = draw(st.sampled_from(SEQ_TWINS + SEQ_NEAR))
        p.extend([a, b])
    return p
