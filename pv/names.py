"""Field names that are not plain str.  petl identifies a field by the TEXT of its name (asindices, Record, the header
functions all go through text_type), so a table whose header cells are objects with the same text as the usual string
names must be transformed exactly like the table with the string names; only the header cells the operator merely carries
over may come out as the objects themselves.  And every pass must deliver the same header cells as the first (a cache that
stores a stringified header shows here).

Shared by the per-family property modules: each registers `names.sub(ID)` for the catalogue entries of its family.  The
oracle is metamorphic (str-named input vs object-named input of the same operator), so it is sound wherever the unchanged
tree already honours the relation; the entries that do not (UNSUPPORTED) are recorded in DESIGN.md and left out.
"""
from hypothesis import strategies as st

from pv import catalog, catgen, codec, reuse
from pv.core import Sub, Fail, exc_fail


class N(object):
    """A field name that is not a str: equal only to another N of the same text, never to the str itself."""

    __slots__ = ("t",)

    def __init__(self, t):
        self.t = t

    def __str__(self):
        return self.t

    def __repr__(self):
        return "N(%r)" % (self.t,)

    def __eq__(self, o):
        return isinstance(o, N) and o.t == self.t

    def __ne__(self, o):
        return not self.__eq__(o)

    def __hash__(self):
        return hash(("N", self.t))

    def __lt__(self, o):
        return str(self) < str(o)


# on the unchanged tree these resolve a field by the header OBJECT somewhere (hdr.index(name), `name in hdr`), so they do
# not support non-str names at all; no listed property promises that they do
UNSUPPORTED = ("cat_header", "movefield", "movefield_end", "sortheader", "sortheader_reverse", "unjoin_nokey_left",
               "recordcomplement", "recorddiff0", "recorddiff1", "aggregate_multi", "aggregate_multi_none", "filldown",
               "fieldmap", "fieldmap_failing", "header", "fieldnames", "diffheaders")


def eligible(e):
    if e.name in UNSUPPORTED or e.cells:
        return False
    if e.n < 1 or e.has("file") or e.has("random") or e.has("oneshot"):
        return False
    return True


def names_of(pid):
    return [n for n, e in catalog.ENTRIES.items() if eligible(e) and reuse.family(n) == pid]


def _text(x):
    """N objects replaced by their text, recursively (header cells, dict keys, namedtuple fields ...)."""
    if isinstance(x, N):
        return x.t
    if isinstance(x, tuple):
        return tuple(_text(v) for v in x)
    if isinstance(x, list):
        return [_text(v) for v in x]
    if isinstance(x, dict):
        return dict((_text(k), _text(v)) for k, v in x.items())
    if isinstance(x, (set, frozenset)):
        return set(_text(v) for v in x)
    return x


def _run(e, S, passes=1):
    res = e.build(S)
    if e.has("nonview"):
        return [e.norm(res)]
    return [[tuple(r) for r in res] for _ in range(passes)]


def _case(tier, names):
    return catgen.cat_case(names, max_rows=4 if tier == "quick" else 8)


def check(case, ctx):
    e = catalog.get(case["entry"])
    ctx.label("entry:" + e.name)
    S = codec.snapshot(case["sources"])
    try:
        plain = _run(e, S)[0]
    except Exception as ex:
        ctx.label("rejected:" + type(ex).__name__)
        return None
    SN = [[[N(str(f)) for f in t[0]]] + [list(r) for r in t[1:]] for t in codec.snapshot(case["sources"])]
    try:
        outs = _run(e, SN, passes=2)
    except Exception as ex:
        return exc_fail("names/%s" % e.name, ex)
    ctx.nontrivial(any(len(t) > 1 for t in case["sources"]))
    try:
        same = _text(outs[0]) == _text(plain)
    except Exception:
        same = False
    if not same:
        return Fail("names/%s/differs" % e.name, "with field names that are objects (not str) of the same text the result is %r, with the "
                    "plain str names %r (sources %r)" % (outs[0], plain, case["sources"]))
    if len(outs) > 1 and not (outs[1] == outs[0] and [list(map(type, r)) for r in outs[1][:1]] == [list(map(type, r)) for r in outs[0][:1]]):
        return Fail("names/%s/second-pass-differs" % e.name, "second pass gave %r, first pass %r (field names are objects, not str)" % (outs[1][:2], outs[0][:2]))
    return None


RULE = (" Sub 'names' (pv/names.py): for the catalogue entries of this family, the same generated sources once with the usual "
        "str field names and once with field names that are objects of the same text (never equal to a str): both results must "
        "agree once the name objects are read as their text, and a second pass must deliver the same header cells, of the same "
        "type, as the first. Non-trivial = a source has data rows.")


def sub(pid, quick=2000, thorough=20000, names=None):
    nm = names or names_of(pid)

    def strategy(tier, shard=0, nshards=1):
        return _case(tier, nm[shard::nshards] or nm)
    strategy.sharded = True
    return Sub("names", check, strategy=strategy, quick=quick, thorough=thorough)
