"""Independent reference of the ordering stated in property C04.

Written from the statement, not from petl/comparison.py (nothing from petl is imported here):

  None  <  numbers (bool, int, float, Decimal; native order)  <  everything else;
  within "everything else": values of one type follow their native order, values of unrelated
  types are ordered by type name, where bytes counts as 'str' and text as 'unicode' (so bytes
  sort before text), and lists/tuples count as one type ('tuple') and compare element-wise
  under these same rules, a proper prefix sorting first.
"""
from decimal import Decimal
from functools import cmp_to_key

_NUM = (bool, int, float, Decimal)


def _rank(v):
    if v is None:
        return 0
    if isinstance(v, _NUM):
        return 1
    return 2


def _tname(v):
    if isinstance(v, (list, tuple)):
        return "tuple"
    if isinstance(v, bytes):
        return "str"
    if isinstance(v, str):
        return "unicode"
    return type(v).__name__


def _sign(a, b):
    return (a > b) - (a < b)


def ref_cmp(a, b):
    """-1, 0, +1"""
    ra, rb = _rank(a), _rank(b)
    if ra != rb:
        return -1 if ra < rb else 1
    if ra == 0:
        return 0
    if ra == 1:
        return _sign(a, b)
    sa, sb = isinstance(a, (list, tuple)), isinstance(b, (list, tuple))
    if sa and sb:
        for x, y in zip(a, b):
            c = ref_cmp(x, y)
            if c:
                return c
        return _sign(len(a), len(b))
    ta, tb = _tname(a), _tname(b)
    if ta != tb:
        return -1 if ta < tb else 1
    return _sign(a, b)


ref_key = cmp_to_key(ref_cmp)


def ref_lt(a, b):
    return ref_cmp(a, b) < 0


def ref_eq(a, b):
    return ref_cmp(a, b) == 0


def rank_class(v):
    """Coarse class used for non-triviality labels."""
    if v is None:
        return "none"
    if isinstance(v, _NUM):
        return "num"
    if isinstance(v, (list, tuple)):
        return "seq"
    return _tname(v)
