"""Instrumented sources: observe petl from outside (no hooks in /repo)."""
import io

import petl as etl


class Boom(Exception):
    """Injected failure; carries where it was injected."""

    def __init__(self, at):
        Exception.__init__(self, "injected failure at item %r" % (at,))
        self.at = at


# the same injected failure under the standard exception types that library code likes to catch for its own purposes
# (a retry on TypeError, "short row" on IndexError, "no such field" on KeyError, cleanup on OSError ...); all are Boom
class BoomTypeError(Boom, TypeError):
    pass


class BoomValueError(Boom, ValueError):
    pass


class BoomKeyError(Boom, KeyError):
    pass


class BoomIndexError(Boom, IndexError):
    pass


class BoomAttributeError(Boom, AttributeError):
    pass


class BoomOSError(Boom, OSError):
    pass


BOOMS = {"plain": Boom, "type": BoomTypeError, "value": BoomValueError, "key": BoomKeyError, "index": BoomIndexError,
         "attribute": BoomAttributeError, "os": BoomOSError}
BOOM_KINDS = sorted(BOOMS)


class Counting(etl.Table):
    """A table over a list of rows that counts header pulls and data-row pulls, per iterator
    and in total.  `rows` may be edited between passes (histories of C11)."""

    def __init__(self, rows):
        self.rows = rows
        self.header_pulls = 0
        self.data_pulls = 0
        self.iterators = 0
        self.exhausted = 0
        self.fail_at = None   # when set: raise Boom instead of yielding data row number fail_at (0-based)
        self.fail_kind = "plain"

    def __iter__(self):
        self.iterators += 1
        return self._gen()

    def _gen(self):
        for i, r in enumerate(self.rows):
            if i == 0:
                self.header_pulls += 1
            else:
                if self.fail_at is not None and i - 1 == self.fail_at:
                    raise BOOMS[self.fail_kind](("data-row", self.fail_at))
                self.data_pulls += 1
            yield r
        self.exhausted += 1

    def reset(self):
        self.header_pulls = self.data_pulls = self.iterators = self.exhausted = 0


class Failing(etl.Table):
    """Yields rows[0..at-1] then raises Boom(at).  at == len(rows) raises at exhaustion;
    at > len(rows) or None never raises."""

    def __init__(self, rows, at, kind="plain"):
        self.rows = rows
        self.at = at
        self.kind = kind

    def __iter__(self):
        return self._gen()

    def _gen(self):
        for i, r in enumerate(self.rows):
            if self.at is not None and i == self.at:
                raise BOOMS[self.kind](i)
            yield r
        if self.at is not None and self.at == len(self.rows):
            raise BOOMS[self.kind](self.at)


class _CountingFile(object):
    def __init__(self, f, owner):
        self._f = f
        self._owner = owner

    def _add(self, b):
        self._owner.bytes_read += len(b) if b is not None else 0
        return b

    def read(self, n=-1):
        return self._add(self._f.read(n))

    def read1(self, n=-1):
        return self._add(self._f.read1(n))

    def readinto(self, b):
        n = self._f.readinto(b)
        self._owner.bytes_read += n or 0
        return n

    def readinto1(self, b):
        n = self._f.readinto1(b) if hasattr(self._f, "readinto1") else self._f.readinto(b)
        self._owner.bytes_read += n or 0
        return n

    def readline(self, n=-1):
        return self._add(self._f.readline(n))

    def peek(self, n=0):
        return self._f.peek(n)

    def __iter__(self):
        return self

    def __next__(self):
        line = self._f.readline()
        if not line:
            raise StopIteration
        return self._add(line)

    def __getattr__(self, name):
        return getattr(self._f, name)

    def __enter__(self):
        return self

    def __exit__(self, *a):
        self._f.close()


class ByteCounting(object):
    """A petl read source (object with open(mode)) counting the bytes requested from the file."""

    def __init__(self, path):
        self.path = path
        self.bytes_read = 0
        self.opens = 0

    def open(self, mode="rb"):
        self.opens += 1
        f = io.open(self.path, mode)
        return _CountingFile(f, self)
