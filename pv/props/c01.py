"""C01 - table views are re-iterable and their iterators are mutually independent."""
import itertools

import petl as etl
from petl.util.materialise import cache as petl_cache

from hypothesis import strategies as st

from pv import catalog, catgen, codec, gen, names
from pv import scale
from pv.core import Sub, Fail, exc_fail

ID = "C01"
LEVEL = "exploration"
RULE = ("Sub 'schedules': Hypothesis draws (catalogue entry [+ strategy variant for sort-backed entries], sources, a schedule "
        "[, optionally ONE object - wrapped in a cache/sort/spill stage - as every input of a binary operator], of <=24 new/advance/drop/drain actions over 3 iterator slots, optionally opened by a completed pass, 1-2 final fresh passes); every advance must return the "
        "next item of a solo pass over an identically built view (StopIteration exactly at its end) and fresh passes must "
        "equal the solo pass. Sub 'interleavings' (thorough tier): for every entry/variant and a fixed 3-row source, ALL "
        "interleavings of two iterators (second iterator created at any point, each advanced 0..len+1 times, so every "
        "abandonment point) followed by a fresh pass. Non-trivial = two iterators live at once, control switched between "
        "them after a data row was consumed, solo pass has >=2 data rows. Distinct by digest of the case.")
ASSUMPTIONS = [
    "operators are exercised with the fixed valid arguments of pv/catalog.py",
    "iterator independence is about next() order within one thread (the harness owns the schedule)",
    "rows are compared after tuple() (some paths yield lists, others tuples, for the same view)",
    "tee* views are excluded by the statement",
]

ITERABLE_NONVIEWS = {
    "values": lambda v: v, "values_multi": lambda v: v, "data": tuple, "records": tuple, "namedtuples": tuple,
    "dicts": lambda d: tuple(sorted(d.items(), key=repr)),
}
VARIANTS = {"default": {}, "chunk": {"buffersize": 2}, "chunk-nocache": {"buffersize": 2, "cache": False},
            "nocache": {"cache": False}}


def _targets():
    out = []
    for n, e in catalog.ENTRIES.items():
        if e.has("nonview") and n not in ITERABLE_NONVIEWS:
            continue
        if e.has("sorted"):
            for v in VARIANTS:
                out.append((n, v))
        else:
            out.append((n, "default"))
    return out


TARGETS = _targets()


# optional upstream stage applied to every source before the entry is built: the view under schedule is then a
# small *program* whose inner views carry their own caches / spill files
UPSTREAM = {
    "none": lambda t, tmp: t,
    "cache": lambda t, tmp: petl_cache(t),
    "cache_n": lambda t, tmp: petl_cache(t, n=2),
    "sort_chunk": lambda t, tmp: etl.sort(t, buffersize=2, tempdir=tmp),
    "sort_nocache": lambda t, tmp: etl.sort(t, buffersize=2, tempdir=tmp, cache=False),
    "select": lambda t, tmp: etl.select(t, lambda r: True),
    "fromdicts_gen": lambda t, tmp: (lambda rows: etl.fromdicts((dict(zip(rows[0], r)) for r in rows[1:] if len(r) == len(rows[0])),
                                                              header=list(rows[0])))(list(t)),
}


def _norm(e):
    return ITERABLE_NONVIEWS.get(e.name, tuple)


def _build(e, S, variant, tmp, res=None, upstream="none", diamond=False):
    if diamond and len(S) >= 2:
        # the SAME (possibly wrapped) object is every input of the operator: petl itself then interleaves iterators over it
        one = UPSTREAM[upstream](S[0], tmp)
        S = [one] * len(S)
    elif upstream != "none":
        S = [UPSTREAM[upstream](t, tmp) for t in S]
    kw = dict(VARIANTS[variant])
    if kw and tmp is not None:
        kw["tempdir"] = tmp
    return catgen.build(e, S, tmp, res, **kw)


@st.composite
def _case(draw, tier, targets):
    name, variant = draw(st.sampled_from(targets))
    e = catalog.get(name)
    ragged = (not e.has("rect")) and draw(st.booleans())
    S = [draw(catgen.cat_table(ragged=ragged, max_rows=5, cells=e.cells)) for _ in range(e.n)]
    n = draw(gen.sizes(3, 24))
    # slot 0 and 1 are favoured so that two iterators are usually live together
    acts = draw(st.lists(st.tuples(st.sampled_from(["adv"] * 14 + ["new", "new", "drop", "drop", "drain"]),
                                   st.sampled_from([0, 1, 0, 1, 2])), min_size=n, max_size=n))
    # the process-wide defaults (petl.config.failonerror / sort_buffersize) change while iterators are live: a view was
    # configured when it was built
    if draw(st.integers(0, 3)) == 0:
        for _ in range(draw(st.integers(1, 2))):
            acts.insert(draw(st.integers(0, len(acts))), ("config", draw(st.integers(0, 2))))
    # structured openings: a completed pass (optionally with another iterator already live) before the interleaving starts
    opening = draw(st.sampled_from(["none", "none", "none", "pass-first", "pass-beside-live"]))
    if opening == "pass-first":
        acts = [("drain", 0), ("new", 0), ("new", 1)] + acts
    elif opening == "pass-beside-live":
        acts = [("new", 1), ("adv", 1), ("drain", 0), ("new", 0)] + acts
    up = draw(st.sampled_from(["none", "none", "none"] + sorted(UPSTREAM))) if (e.n >= 1 and not e.has("file") and not e.cells) else "none"
    diamond = e.n >= 2 and not e.has("file") and not e.cells and draw(st.integers(0, 3)) == 0
    if diamond:
        S = [S[0]] * e.n
    # the container form of every source (list of lists, tuple of tuples, an object with only __iter__ ...)
    forms = [draw(st.sampled_from(["lists", "lists"] + catgen.FORMS)) for _ in S] if not e.cells else ["lists"] * len(S)
    # field names that are objects (not str) with the usual text - only the text of a name identifies a field
    name_objects = names.eligible(e) and draw(st.integers(0, 4)) == 0
    return {"entry": name, "variant": variant, "sources": S, "schedule": [list(a) for a in acts],
            "fresh": draw(st.integers(1, 2)), "upstream": up, "diamond": diamond, "forms": forms, "name_objects": name_objects}


def case(tier, shard=0, nshards=1):
    return _case(tier, TARGETS[shard::nshards] or TARGETS)


case.sharded = True


def run_schedule(case, ctx):
    e = catalog.get(case["entry"])
    # (single-input entries in their default variant only: a cross join or a two-row chunk size at this size is minutes)
    # (the entries that keep a buffer, a spill file or a file position - extractors, fromdicts over a generator, cache - far
    #  more often than the rest)
    stateful = e.has("file") or e.name.startswith(("fromdicts", "cache", "fromcolumns"))
    b = scale.derive(case, odds=8 if stateful else 120, sizes=[1500, 2600], wide=False) if (not e.cells and e.n == 1 and case["variant"] == "default") else None
    if b and all(len(t) > 1 for t in case["sources"]):
        # at scale: every source blown up past 1000 rows / an 8 KiB read buffer; each "adv" of the schedule now advances a
        # block of rows, so that live iterators are hundreds of rows apart
        # ... and the schedule opens with a leader well past row 1000 and a second iterator started late that follows it
        # past row 1000 as well, before the two alternate
        opening = [["new", 0]] + [["adv", 0]] * 8 + [["new", 1]] + [["adv", 1]] * 7 + [["adv", 0], ["adv", 1], ["adv", 0]]
        case = dict(case, sources=[scale.apply(t, b) for t in case["sources"]], _stride=max(1, b["rows"] // 10), diamond=False,
                    schedule=opening + [list(a) for a in case["schedule"]])
        scale.label(ctx, b)
    variant = case["variant"]
    norm = _norm(e)
    up = case.get("upstream", "none")
    tmp = ctx.tmpdir() if (e.has("file") or e.has("sorted") or up.startswith("sort")) else None
    ctx.label("entry:" + e.name, "variant:" + variant, "upstream:" + up)
    # the solo pass of an identically built view over separately copied sources
    res = e.prepare(codec.snapshot(case["sources"]), tmp) if e.has("file") else None
    diamond = bool(case.get("diamond"))
    forms = case.get("forms") or []

    def named(S):
        if not case.get("name_objects"):
            return S
        return [[[names.N(str(f)) for f in t[0]]] + list(t[1:]) for t in S]

    def shaped():
        S = named(codec.snapshot(case["sources"]))
        return [catgen.shape(t, forms[i]) if i < len(forms) else t for i, t in enumerate(S)]
    if case.get("name_objects"):
        ctx.label("name-objects")
    if any(f != "lists" for f in forms):
        ctx.label("container-forms")
    try:
        # the solo pass runs on plain lists of lists: the container form must not matter
        solo = [norm(r) for r in _build(e, named(codec.snapshot(case["sources"])), variant, tmp, res, up)]
    except Exception as ex:
        ctx.label("rejected:" + type(ex).__name__)  # totality is not C01's business
        return None
    if diamond:
        # one object as every input must behave like equal but separate inputs
        ctx.label("diamond")
        try:
            dsolo = [norm(r) for r in _build(e, shaped(), variant, tmp, res, up, diamond=True)]
        except Exception as ex:
            return exc_fail("%s/%s/diamond" % (e.name, variant), ex)
        if dsolo != solo:
            return Fail("%s/%s/diamond-differs" % (e.name, variant), "with one object (upstream %s) as every input the pass gave %r, with "
                        "equal separate inputs %r" % (up, dsolo, solo))
    view = _build(e, shaped(), variant, tmp, res, up, diamond=diamond)
    import petl.config as _cfg
    _old = (_cfg.failonerror, _cfg.sort_buffersize)
    try:
        return _run(case, ctx, e, variant, norm, solo, view)
    finally:
        _cfg.failonerror, _cfg.sort_buffersize = _old


def _run(case, ctx, e, variant, norm, solo, view):
    import petl.config as _cfg
    its = {}
    live_max = 0
    last = None
    switched_after_data = False
    for kind, s in case["schedule"]:
        if kind == "config":
            if s == 2:
                _cfg.sort_buffersize = 1
            else:
                _cfg.failonerror = ("inline", True)[s]
            ctx.label("config-changed-mid-schedule")
            continue
        if kind in ("adv", "drain") and s not in its:
            kind = "new"
        if kind == "new":
            try:
                its[s] = [iter(view), 0]
            except Exception as ex:
                return exc_fail(e.name + "/iter", ex)
        elif kind == "drop":
            its.pop(s, None)
        else:
            # "adv": one next() (a block of them at scale); "drain": next() until the iterator is exhausted (a completed pass
            # while others are live)
            stride_left = case.get("_stride", 1)
            while True:
                it, pos = its[s]
                try:
                    r = norm(next(it))
                except StopIteration:
                    if pos != len(solo):
                        return Fail("%s/%s/early-stop" % (e.name, variant),
                                    "iterator stopped at position %d, solo pass has %d items" % (pos, len(solo)))
                    break
                except Exception as ex:
                    return exc_fail("%s/%s" % (e.name, variant), ex)
                else:
                    if pos >= len(solo):
                        return Fail("%s/%s/extra-row" % (e.name, variant),
                                    "iterator yielded %r beyond the solo pass (%d items)" % (r, len(solo)))
                    if r != solo[pos]:
                        return Fail("%s/%s/wrong-row" % (e.name, variant),
                                    "position %d: got %r, solo pass has %r" % (pos, r, solo[pos]))
                    its[s][1] = pos + 1
                    if last is not None and last != s and len(its) >= 2 and any(p >= 2 for _, p in its.values()):
                        switched_after_data = True
                    last = s
                if kind == "adv":
                    stride_left -= 1
                    if stride_left <= 0:
                        break
        live_max = max(live_max, len(its))
    for p in range(case["fresh"]):
        try:
            again = [norm(r) for r in view]
        except Exception as ex:
            return exc_fail("%s/%s/fresh-pass" % (e.name, variant), ex)
        if again != solo:
            return Fail("%s/%s/fresh-pass" % (e.name, variant), "fresh pass %d gave %r, solo pass %r" % (p, again, solo))
    del its
    ctx.nontrivial(live_max >= 2 and switched_after_data and len(solo) >= 3)
    return None


# ---- exhaustive two-iterator interleavings ------------------------------------------------------

FIXED = [
    [["k", "j", "v", "s"], [1, "a", 2, "xay"], [None, 1.0, None, "b,x"], [1, "a", 3, "x"]],
    [["k", "j", "v", "s"], [1, "b", 5, "qx"], [None, 1.0, None, "b,x"], [2, None, 1, ""]],
]


def _words(m):
    """All words over {a, b} with at most m a's and m b's, with the creation point N of the second
    iterator inserted at every position not after the first b."""
    for la in range(m + 1):
        for lb in range(m + 1):
            for pos in itertools.combinations(range(la + lb), lb):
                w = ["a"] * (la + lb)
                for p in pos:
                    w[p] = "b"
                first_b = w.index("b") if lb else len(w)
                for n in range(first_b + 1):
                    yield "".join(w[:n]) + "N" + "".join(w[n:])


def enum_interleavings(tier):
    for name, variant in TARGETS:
        e = catalog.get(name)
        try:
            L = len(list(_build(e, codec.snapshot(FIXED[:e.n] or FIXED[:1]), "default", None))) if not e.has("file") else 4
        except Exception:
            L = 4
        m = min(L + 1, 5)
        for w in _words(m):
            yield {"entry": name, "variant": variant, "word": w}


def run_word(case, ctx):
    sched = [["new", 0]]
    for ch in case["word"]:
        sched.append(["new", 1] if ch == "N" else ["adv", 0 if ch == "a" else 1])
    e = catalog.get(case["entry"])
    c = {"entry": case["entry"], "variant": case["variant"], "sources": FIXED[:e.n], "schedule": sched, "fresh": 1}
    return run_schedule(c, ctx)


SUBS = [
    Sub("schedules", run_schedule, strategy=case, quick=20000, thorough=200000),
    Sub("interleavings", run_word, enumerate=enum_interleavings, tiers=("thorough",)),
]


def _known_dummytable(sub, case, fail):
    return case.get("entry") == "dummytable" and fail.bucket.startswith("dummytable/")


KNOWN = {"dummytable-global-rng": _known_dummytable}

# cases at scale (see pv/scale.py)
RULE += scale.RULE
