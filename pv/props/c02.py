"""C02 - pipelines are lazy: nothing is read until rows are requested, and then only O(k)."""
import csv
import itertools
import json
import os
import pickle

import petl as etl
from petl.util.materialise import cache as petl_cache
from hypothesis import strategies as st

from pv import catalog, catgen, gen
from pv import scale
from pv.core import Sub, Fail, exc_fail
from pv.probes import Counting, ByteCounting

ID = "C02"
LEVEL = "exploration"
RULE = ("Sub 'construct': Hypothesis draws (catalogue entry, sources); building the view over pull-counting sources must "
        "pull zero data rows (header pulls allowed). Sub 'stream': for streaming entries and for random pipelines of 1-4 "
        "streaming stages, the first k+1 items are taken from the same view over a source of n1 rows and of 100*n1 rows "
        "sharing a prefix; the outputs and the data-pull counts must be equal, and pulls <= need(k)+c where need(k) is the "
        "shortest source prefix giving the same k rows (bisection) and c the stage look-ahead (2 per stage unless the stage "
        "documents a sample size; the constants are deliberately generous - 4 rows per operator, 3 per pipeline stage - because the statement only says 'a small constant'). Sub 'files': same for fromcsv/fromtsv/frompickle/fromtext/fromjson(lines) with a "
        "byte-counting source over a small and a 100x larger file. Non-trivial = k>=1 and need(k) < n1/2 (construct: entry "
        "has >=1 source with >=2 data rows). Distinct by digest of the case.")
ASSUMPTIONS = [
    "eager accessors that return non-views (lookup, nrows, facet, columns, ...) are requests for data, not pipeline stages",
    "non-streaming operators (sorts, tail, transpose, recast, pivot, crossjoin, ...) are subject to the construction rule only",
    "for two-input streaming operators the pull bound is asserted on the streamed input; the build side of a hash join may be read fully",
    "file extractors: bytes are counted at the source's open() handle; one I/O buffer of read-ahead per layer is allowed",
]


class Cyclic(Counting):
    """Pull-counting source of n data rows repeating a block (cheap for any n)."""

    def __init__(self, hdr, block, n, tail=()):
        Counting.__init__(self, None)
        self.hdr, self.block, self.n, self.tail = hdr, block, n, tail

    def _gen(self):
        self.header_pulls += 1
        yield self.hdr
        b = self.block
        for i in range(self.n):
            self.data_pulls += 1
            yield b[i % len(b)]
        for r in self.tail:
            self.data_pulls += 1
            yield r
        self.exhausted += 1


# ---- (i) construction ----------------------------------------------------------------------------
CONSTRUCT = [n for n, e in catalog.ENTRIES.items() if e.n >= 1 and not e.has("eager") and not e.has("file")
             and n not in ("header", "fieldnames", "diffheaders", "lookall")
             # these entries are built by the harness from materialised dicts / columns of the source
             and not n.startswith("fromdicts") and n != "fromcolumns"]


def construct_case(tier, shard=0, nshards=1):
    return catgen.cat_case(CONSTRUCT[shard::nshards] or CONSTRUCT, max_rows=4)


construct_case.sharded = True


def check_construct(case, ctx):
    e = catalog.get(case["entry"])
    srcs = [Counting([list(r) for r in t]) for t in case["sources"]]
    ctx.label("entry:" + e.name)
    try:
        view = catgen.build(e, srcs)
    except Exception as ex:
        pulls = [s.data_pulls for s in srcs]
        if any(pulls):
            return Fail(e.name + "/construct-pulls", "construction pulled %r data rows (then %s)" % (pulls, type(ex).__name__))
        ctx.label("rejected:" + type(ex).__name__)
        return None
    pulls = [s.data_pulls for s in srcs]
    if any(pulls):
        return Fail(e.name + "/construct-pulls", "construction pulled %r data rows" % (pulls,))
    ctx.nontrivial(any(len(t) > 2 for t in case["sources"]))
    del view
    return None


# ---- (ii) O(k) for streaming entries and pipelines -------------------------------------------------
STREAM = [n for n, e in catalog.ENTRIES.items() if (e.has("stream") or e.has("hash")) and e.n >= 1 and not e.has("file")
          and n not in ("look", "see")]
STREAMSRC = {"hashrightjoin": 1, "hashrightjoin_kw": 1}  # the streamed (probe) input of the entry

# pipeline stages: header-agnostic (fields by index 0/1), rows never shrink below 2 cells
STAGES = {
    "select0": (lambda t, p: etl.select(t, lambda r: r[0] is not None), 3),
    "selectv": (lambda t, p: etl.selectnotnone(t, 1), 3),
    "convert": (lambda t, p: etl.convert(t, 1, lambda v: (v,)), 3),
    "addfield": (lambda t, p: etl.addfield(t, "z%d" % p, lambda r: r[0]), 3),
    "addrownumbers": (lambda t, p: etl.addrownumbers(t, field="n%d" % p), 3),
    "cut": (lambda t, p: etl.cut(t, 0, 1, 0), 3),
    "rowslice": (lambda t, p: etl.rowslice(t, p, None), 3),
    "head": (lambda t, p: etl.head(t, 1000 + p), 3),
    "rename": (lambda t, p: etl.rename(t, 0, "r%d" % p), 3),
    "fillright": (lambda t, p: etl.fillright(t), 3),
    "skipcomments": (lambda t, p: etl.skipcomments(t, "#"), 3),
    "cat": (lambda t, p: etl.cat(t, [["extra"], [1]]), 3),
    "stack": (lambda t, p: etl.stack(t, [["extra"], [1]]), 3),
    "annex": (lambda t, p: etl.annex(t, [["extra"], [1], [2]]), 3),
    "melt": (lambda t, p: etl.melt(t, key=0), 3),
    "hashjoin": (lambda t, p: etl.hashleftjoin(t, [["kk", "w%d" % p], [0, "zero"], [1, "one"], [1, "uno"]], lkey=0, rkey="kk"), 3),
    "hashcomplement": (lambda t, p: etl.hashcomplement(t, [[0], [None]]), 3),
    "rowmap": (lambda t, p: etl.rowmap(t, lambda r: [r[0], r[1], p], ["a", "b", "c"]), 3),
    "rowmapmany": (lambda t, p: etl.rowmapmany(t, lambda r: [[r[0], r[1]], [r[1], r[0]]], ["a", "b"]), 3),
    "fieldmap": (lambda t, p: etl.fieldmap(t, {"a": 0, "b": (1, lambda v: (v,))}), 3),
    "wrap": (lambda t, p: etl.wrap(t), 3),
    "progress": (lambda t, p: etl.progress(t, 1000, out=open(os.devnull, "w")), 3),
    "clock": (lambda t, p: etl.clock(t), 3),
    "selectusingcontext": (lambda t, p: etl.selectusingcontext(t, lambda a, b, c: b[0] is not None), 3),
    "addfieldusingcontext": (lambda t, p: etl.addfieldusingcontext(t, "c%d" % p, lambda a, b, c: a is None), 3),
    "filldown": (lambda t, p: etl.filldown(t, 1), 3),
    "sub": (lambda t, p: etl.sub(t, 3, "x", "y") if p < 0 else etl.convert(t, 0, str), 3),
    # a dict column in which dicts are rare: the key sample is a sample of ROWS (samplesize=2), not of dict-bearing rows
    # (unpackdict wants the field by name: the stage reads the header - not a data row - to learn it)
    "unpackdict_sparse": (lambda t, p: (lambda nm: etl.addfield(etl.unpackdict(etl.convert(t, nm, lambda v: {"p": v} if v == "a" else None),
                                                                               nm, samplesize=2), "u%d" % p, None))(etl.header(t)[1]), 3),
    "unpack": (lambda t, p: etl.unpack(etl.convert(t, 1, lambda v: [v, v]), 1, ["p%d" % p, "q%d" % p]), 3),
    # pass-through views that write to a sink while rows flow: releasing a partially consumed iterator must not drain the
    # source either (the pull counter is read after the iterator has been released)
    "teecsv": (lambda t, p: etl.teecsv(t, etl.MemorySource()), 3),
    "teetsv": (lambda t, p: etl.teetsv(t, etl.MemorySource(), write_header=False), 3),
    "teepickle": (lambda t, p: etl.teepickle(t, etl.MemorySource()), 3),
    "teehtml": (lambda t, p: etl.teehtml(t, etl.MemorySource()), 3),
    "teehtml_trstyle": (lambda t, p: etl.teehtml(t, etl.MemorySource(), tr_style=lambda rec: "x"), 3),
    "teetext": (lambda t, p: etl.teetext(t, etl.MemorySource(), template="row\n", prologue="p", epilogue="e"), 3),
    "cache": (lambda t, p: petl_cache(t), 3),
    "cache_n": (lambda t, p: petl_cache(t, n=2), 3),
}
STAGE_NAMES = sorted(STAGES)


def stream_case(tier, shard=0, nshards=1):
    return _stream_case(tier, STREAM[shard::nshards] or STREAM)


stream_case.sharded = True


@st.composite
def _stream_case(draw, tier, names):
    kind = draw(st.sampled_from(["entry", "entry", "pipeline", "pipeline", "pipeline"]))
    block = draw(catgen.cat_table(ragged=False, max_rows=6, min_rows=2))[1:]
    c = {"block": block, "k": draw(st.sampled_from([1, 2, 3, 5, 6, 4, 0])), "n1": draw(st.sampled_from([30, 50, 100]))}
    if kind == "entry":
        c["entry"] = draw(st.sampled_from(names))
        c["other"] = draw(catgen.cat_table(ragged=False, max_rows=4, min_rows=1))
    else:
        depth = draw(st.sampled_from([2, 3, 4, 1]))
        c["pipeline"] = [[draw(st.sampled_from(STAGE_NAMES)), i] for i in range(depth)]
    return c


POISON = [["P", "P", 7, "xPx"], ["Q", "Q", 8, "xQx"], ["P", "Q", 9, "#x"]]


def _take(view_factory, hdr, block, n, k, which=0, other=None, tail=()):
    src = Cyclic(hdr, block, n, tail)
    view = view_factory(src)
    out = []
    it = iter(view)
    for i, r in enumerate(it):
        out.append(r if not isinstance(r, (list, tuple)) else tuple(r))
        if i >= k:
            break
    del it
    return out, src.data_pulls


def check_stream(case, ctx):
    hdr = list(catalog.H)
    block, k, n1 = case["block"], case["k"], case["n1"]
    bb = scale.derive(case, odds=40, sizes=[101, 150, 1001, 1100], wide=False)
    if bb and k >= 1:
        # at scale: a prefix of more than 100 / 1000 rows (the sources are 500 rows and 100 times longer than that)
        k, n1 = bb["rows"], bb["rows"] + 500
        ctx.label("at-scale")
    if "entry" in case:
        e = catalog.get(case["entry"])
        which = STREAMSRC.get(e.name, 0)
        other = case["other"]

        def factory(src):
            S = [other] * e.n
            S[which] = src
            res = catgen.build(e, S)
            if e.name == "dicts":
                return (tuple(sorted(d.items(), key=repr)) for d in res)
            return res
        ahead = e.ahead
        name = e.name
        ctx.label("entry:" + e.name)
    else:
        def factory(src):
            t = src
            for st_name, p in case["pipeline"]:
                t = STAGES[st_name][0](t, p)
            return t
        ahead = sum(STAGES[s][1] for s, _ in case["pipeline"])
        name = "pipeline"
        ctx.label("pipeline-depth:%d" % len(case["pipeline"]), *["stage:" + s for s, _ in case["pipeline"]])
    try:
        out1, p1 = _take(factory, hdr, block, n1, k)
        out2, p2 = _take(factory, hdr, block, 100 * n1, k)
    except Exception as ex:
        if "entry" in case:
            ctx.label("rejected:" + type(ex).__name__)
            return None
        return exc_fail(name, ex)
    if len(out2) < k + 1:
        ctx.label("short-output")  # fewer than k rows exist even in the long source: nothing to compare
        return None
    if k >= 1:
        # the same k data rows come out of an EMPTY source: they stem from a table appended behind the source (cat / stack
        # after a filter that nothing of the source passes) and can only be delivered once the source is exhausted
        try:
            if _take(factory, hdr, block, 0, k)[0] == out2:
                ctx.label("rows-from-behind-the-source")
                return None
        except Exception:
            pass
    # need(k): shortest source prefix that DETERMINES the first k+1 items: the same items come out whether the source ends
    # there or continues with different rows (so rows that an operator can only emit once its input is exhausted - the
    # second table of cat/stack, the tail of annex - count as needing the whole source)
    def determines(m):
        try:
            return _take(factory, hdr, block, m, k)[0] == out2 and _take(factory, hdr, block, m, k, tail=POISON)[0] == out2
        except Exception:
            return False
    lo, hi = 0, p2
    while lo < hi:
        mid = (lo + hi) // 2
        if determines(mid):
            hi = mid
        else:
            lo = mid + 1
    need = lo
    if p2 > need + ahead:
        return Fail(name + "/pulls-exceed-bound", "%d items need %d source rows but %d were pulled from a %d-row source (allowed look-ahead %d)" % (k + 1, need, p2, 100 * n1, ahead))
    if need + ahead < n1:
        # the short source is long enough: same output, same pulls
        if out1 != out2:
            return Fail(name + "/prefix-differs", "first %d items differ between %d and %d source rows: %r vs %r" % (k + 1, n1, 100 * n1, out1, out2))
        if p1 != p2:
            return Fail(name + "/pulls-depend-on-length", "%d items pulled %d rows from a %d-row source but %d rows from a %d-row source" % (k + 1, p1, n1, p2, 100 * n1))
    ctx.nontrivial(k >= 1 and need < n1 / 2)
    return None


# ---- two streamed inputs --------------------------------------------------------------------------------------
BINARY = {
    "annex": (lambda a, b: etl.annex(a, b), "both"),
    "annex_cut": (lambda a, b: etl.annex(etl.cut(a, "k", "v"), etl.convert(b, "v", lambda v: (v,))), "both"),
    "addcolumn_lazy": (lambda a, b: etl.addcolumn(a, "z", etl.values(b, "v")), "both"),
    "addcolumn_lazy_index": (lambda a, b: etl.addcolumn(a, "z", etl.values(b, "v", "k"), index=0), "both"),
    "cat": (lambda a, b: etl.cat(a, b), "first"),
    "stack": (lambda a, b: etl.stack(a, b), "first"),
    "fromcolumns_lazy": (lambda a, b: etl.fromcolumns([etl.values(a, "k"), etl.values(b, "v"), (r[0] for r in etl.data(b))]), "lazy-second"),
    "hashleftjoin_probe": (lambda a, b: etl.hashleftjoin(a, etl.head(b, 3), key="k"), "first-bounded"),
}


def binary_cases(tier):
    for name in sorted(BINARY):
        for k in (0, 1, 2, 5):
            for n1 in (30, 100):
                yield {"op": name, "k": k, "n1": n1}


def check_binary(case, ctx):
    fn, mode = BINARY[case["op"]]
    k, n1 = case["k"], case["n1"]
    hdr = list(catalog.H)
    block = [[1, "a", 2, "x"], [None, "b", None, "y"], [3, "c", 1, "xz"]]
    res = []
    for n in (n1, 100 * n1):
        a, b = Cyclic(hdr, block, n), Cyclic(hdr, block, n)
        try:
            view = fn(a, b)
            at_construction = (a.data_pulls, b.data_pulls)
            out = [tuple(r) for r in itertools.islice(view, k + 1)]
        except Exception as ex:
            return exc_fail("binary/" + case["op"], ex)
        res.append((out, a.data_pulls, b.data_pulls, at_construction))
    ctx.label("op:" + case["op"])
    ctx.nontrivial(k >= 1)
    (o1, a1, b1, c1), (o2, a2, b2, c2) = res
    if any(c1) or any(c2):
        return Fail("binary/%s/construct-pulls" % case["op"], "construction pulled %r / %r data rows" % (c1, c2))
    if o1 != o2:
        return Fail("binary/%s/prefix-differs" % case["op"], "%r vs %r" % (o1, o2))
    if (a1, b1) != (a2, b2):
        return Fail("binary/%s/pulls-depend-on-length" % case["op"], "%d rows pulled (%d, %d) from %d-row sources but (%d, %d) from %d-row sources" % (k + 1, a1, b1, n1, a2, b2, 100 * n1))
    bound = k + 3
    if mode == "lazy-second":
        mode, b2, b1 = "both", (b2 + 1) // 2, (b1 + 1) // 2   # two of the three columns read the second source
    if a2 > bound or (mode == "both" and b2 > bound) or (mode == "first" and b2 > 0) or (mode == "first-bounded" and b2 > 5):
        return Fail("binary/%s/pulls-exceed-bound" % case["op"], "%d rows pulled (%d, %d) data rows from the two sources (bound %d, mode %s)" % (k + 1, a2, b2, bound, mode))
    return None


# ---- presorted=True turns the sort-backed operators into streaming merges --------------------------------------------
class Seq(Counting):
    """Pull-counting source of n rows that is sorted under every key of the catalogue (all columns increase)."""

    def __init__(self, n, offset=0):
        Counting.__init__(self, None)
        self.n, self.offset = n, offset

    def _gen(self):
        self.header_pulls += 1
        yield list(catalog.H)
        for i in range(self.n):
            self.data_pulls += 1
            v = i + self.offset
            yield [v, v, v, "x%07d" % v]
        self.exhausted += 1


# not streaming even when presorted: pivot (collects its columns first), groupselectmin/max (sort by value by definition);
# diff of two shifted sequences has its first row at the very end of the input
PRESORTED = [n for n, e in catalog.ENTRIES.items() if e.has("presorted")
             and n not in ("pivot", "groupselectmin", "groupselectmax", "diff0", "diff1", "unjoin_left", "unjoin_right")]


def presorted_cases(tier):
    for name in PRESORTED:
        for k in (1, 3, 8):
            for short in (None, 3):   # optionally the FIRST input has only 3 rows: the others must still be streamed
                if short and catalog.get(name).n < 2:
                    continue
                yield {"entry": name, "k": k, "short": short}


def check_presorted(case, ctx):
    e = catalog.get(case["entry"])
    k = case["k"]
    res = []
    for n in (60, 6000):
        srcs = [Seq(n, offset=i) for i in range(e.n)]
        if case.get("short"):
            srcs[0] = Seq(case["short"])
        try:
            view = e.build(srcs, presorted=True)
            c0 = [s_.data_pulls for s_ in srcs]
            out = [tuple(r) for r in itertools.islice(view, k + 1)]
        except Exception as ex:
            ctx.label("rejected:" + type(ex).__name__)
            return None
        res.append((out, [s_.data_pulls for s_ in srcs], c0))
    ctx.label("entry:" + e.name)
    ctx.nontrivial(True)
    (o1, p1, c1), (o2, p2, c2) = res
    if any(c1) or any(c2):
        return Fail("presorted/%s/construct-pulls" % e.name, "construction pulled %r / %r" % (c1, c2))
    if len(o2) < k + 1:
        return None
    if o1 != o2:
        return Fail("presorted/%s/prefix-differs" % e.name, "%r vs %r" % (o1, o2))
    if p1 != p2:
        return Fail("presorted/%s/pulls-depend-on-length" % e.name, "%d rows pulled %r from 60-row sources but %r from 6000-row sources" % (k + 1, p1, p2))
    if max(p2) > 2 * k + 8 + (case.get("short") or 0):
        return Fail("presorted/%s/pulls-exceed-bound" % e.name, "%d rows pulled %r data rows" % (k + 1, p2))
    return None


# ---- a DB-API cursor that knows its description only after the first fetch (server-side cursors) ---------------------
class _LazyCursor(object):
    def __init__(self, conn):
        self.conn = conn
        self.description = None
        self._i = 0

    def execute(self, query, *a, **kw):
        self._i = 0
        self.description = None
        return self

    def _fetch(self):
        if self._i >= self.conn.nrows:
            return None
        self.conn.fetched += 1
        self.description = [("a", None), ("b", None)]
        r = (self._i, "r%d" % self._i)
        self._i += 1
        return r

    def fetchone(self):
        self.description = [("a", None), ("b", None)]
        return self._fetch()

    def fetchmany(self, size=10):
        out = []
        for _ in range(size):
            r = self._fetch()
            if r is None:
                break
            out.append(r)
        self.description = [("a", None), ("b", None)]
        return out

    def fetchall(self):
        return self.fetchmany(self.conn.nrows + 1)

    def executemany(self, *a):
        raise NotImplementedError

    def __iter__(self):
        return self

    def __next__(self):
        r = self._fetch()
        if r is None:
            self.description = [("a", None), ("b", None)]
            raise StopIteration
        return r

    def close(self):
        pass


class _LazyConn(object):
    def __init__(self, nrows):
        self.nrows = nrows
        self.fetched = 0

    def cursor(self):
        return _LazyCursor(self)

    def commit(self):
        pass


def db_cases(tier):
    for handle in ("connection", "cursor", "cursorfn"):
        for k in (0, 1, 3, 5, 99, 100, 101, 150, 1000, 1001, 1500):
            for stage in ("none", "convert"):
                yield {"handle": handle, "k": k, "stage": stage}


def check_db(case, ctx):
    res = []
    # (k beyond 50: the result sets are k + 500 and k + 5000 rows, so that the k rows never exhaust them)
    for n in ((50, 5000) if case["k"] < 40 else (case["k"] + 500, case["k"] + 5000)):
        conn = _LazyConn(n)
        dbo = conn if case["handle"] == "connection" else conn.cursor() if case["handle"] == "cursor" else (lambda: conn.cursor())
        try:
            view = etl.fromdb(dbo, "select * from t")
            c0 = conn.fetched
            if case["stage"] == "convert":
                view = etl.convert(view, "a", lambda v: (v,))
            out = [tuple(r) for r in itertools.islice(view, case["k"] + 1)]
        except Exception as ex:
            return exc_fail("fromdb/" + case["handle"], ex)
        res.append((out, conn.fetched, c0))
    ctx.label("handle:" + case["handle"])
    ctx.nontrivial(case["k"] >= 1)
    (o1, f1, c1), (o2, f2, c2) = res
    if c1 or c2:
        return Fail("fromdb/%s/construct-fetches" % case["handle"], "construction fetched %d / %d rows" % (c1, c2))
    if o1 != o2 or (o1 and o1[0] != ("a", "b")):
        return Fail("fromdb/%s/prefix-differs" % case["handle"], "%r vs %r" % (o1, o2))
    if f1 != f2:
        return Fail("fromdb/%s/fetches-depend-on-length" % case["handle"], "%d rows fetched %d of the shorter but %d of the longer result set" % (case["k"] + 1, f1, f2))
    if f2 > case["k"] + 3:
        return Fail("fromdb/%s/fetches-exceed-bound" % case["handle"], "%d rows fetched %d result rows" % (case["k"] + 1, f2))
    return None


# ---- look / see / repr ---------------------------------------------------------------------------------
def vis_cases(tier):
    for fn in ("look", "see", "repr", "str", "repr_html", "lookstr", "values_repr", "slice_table", "slice_step", "slice_values",
               "slice_dicts", "index_table", "slice_open", "slice_open_step", "slice_open_values"):
        for limit in (1, 3, 5):
            for depth in (0, 1, 2):
                yield {"fn": fn, "limit": limit, "depth": depth}


def check_vis(case, ctx):
    block = [[1, "a", 2, "x"], [None, "b", None, "y"], [3, "c", 1, "xz"]]
    pulls = []
    outs = []
    lim = case["limit"]
    for n in (50, 5000):
        src = Cyclic(list(catalog.H), block, n)
        t = src
        if case["depth"] >= 1:
            t = etl.convert(t, "v", lambda v: (v,))
        if case["depth"] >= 2:
            t = etl.selectnotnone(etl.addfield(t, "z", 1), "k")
        old = etl.config.look_limit
        try:
            fn = case["fn"]
            if fn == "look":
                o = str(etl.look(t, lim))
            elif fn == "lookstr":
                o = str(etl.lookstr(t, lim))
            elif fn == "see":
                o = str(etl.see(t, lim))
            elif fn == "values_repr":
                o = repr(etl.values(t, "k"))
            elif fn == "slice_table":
                o = repr([tuple(r) for r in etl.wrap(t)[:lim]])
            elif fn == "slice_step":
                o = repr([tuple(r) for r in etl.wrap(t)[1:2 * lim:2]])
            elif fn == "slice_values":
                o = repr(list(etl.values(t, "k")[:lim]))
            elif fn == "slice_dicts":
                o = repr([sorted(d.items(), key=repr) for d in etl.dicts(t)[0:lim]])
            elif fn == "slice_open":
                # an open-ended slice is itself lazy: only what is then taken from it is read
                o = repr([tuple(r) for r in itertools.islice(etl.wrap(t)[1:], lim)])
            elif fn == "slice_open_step":
                o = repr([tuple(r) for r in itertools.islice(etl.wrap(t)[1::3], lim)])
            elif fn == "slice_open_values":
                o = repr(list(itertools.islice(etl.values(t, "k")[2:], lim)))
            elif fn == "index_table":
                o = repr(tuple(etl.wrap(t)[lim]))
            else:
                etl.config.look_limit = lim
                tw = etl.wrap(t)
                o = repr(tw) if fn == "repr" else str(tw) if fn == "str" else tw._repr_html_()
        except Exception as ex:
            return exc_fail("vis/" + case["fn"], ex)
        finally:
            etl.config.look_limit = old
        pulls.append(src.data_pulls)
        outs.append(o)
    ctx.label("fn:" + case["fn"])
    ctx.nontrivial(True)
    if outs[0] != outs[1]:
        return Fail("vis/%s/output-depends-on-length" % case["fn"], "rendering differs")
    if pulls[0] != pulls[1]:
        return Fail("vis/%s/pulls-depend-on-length" % case["fn"], "pulled %r rows" % (pulls,))
    bound = 2 * (max(lim, 6) + 2) + 3
    if pulls[0] > bound:
        return Fail("vis/%s/pulls-exceed-bound" % case["fn"], "limit %d pulled %d rows" % (lim, pulls[0]))
    return None


# ---- file extractors -----------------------------------------------------------------------------------
FILE_ENTRIES = ["fromcsv", "fromtsv", "frompickle", "fromtext", "fromjson_lines"]


@st.composite
def file_case(draw, tier):
    return {"entry": draw(st.sampled_from(FILE_ENTRIES)), "k": draw(st.sampled_from([1, 2, 5, 3, 0])),
            "block": draw(catgen.cat_table(ragged=False, max_rows=5, min_rows=2))[1:],
            "stage": draw(st.sampled_from(["none", "convert", "select"]))}


def _write(entry, path, hdr, block, n):
    rows = (block[i % len(block)] for i in range(n))
    if entry in ("fromcsv", "fromtsv"):
        with open(path, "w", newline="", encoding="utf-8") as f:
            w = csv.writer(f, delimiter="," if entry == "fromcsv" else "\t")
            w.writerow(hdr)
            w.writerows([["" if c is None else str(c) for c in r] for r in rows])
    elif entry == "frompickle":
        with open(path, "wb") as f:
            pickle.dump(tuple(hdr), f, protocol=-1)
            for r in rows:
                pickle.dump(tuple(r), f, protocol=-1)
    elif entry == "fromtext":
        with open(path, "w", encoding="utf-8") as f:
            for r in rows:
                f.write(" ".join(repr(c) for c in r) + "\n")
    else:
        with open(path, "w") as f:
            for r in rows:
                f.write(json.dumps(dict(zip(hdr, [c if c is None or isinstance(c, (int, float, str)) else repr(c) for c in r]))) + "\n")


def check_files(case, ctx):
    e = catalog.get(case["entry"])
    tmp = ctx.tmpdir()
    hdr = list(catalog.H)
    res = []
    for tag, n in (("small", 6000), ("big", 120000)):
        path = os.path.join(tmp, tag)
        _write(e.name, path, hdr, case["block"], n)
        src = ByteCounting(path)
        try:
            view = e.build(None, src)
            at_construction = src.bytes_read
            if case["stage"] == "convert":
                view = etl.convert(view, 0, lambda v: (v,))
            elif case["stage"] == "select":
                view = etl.select(view, lambda r: True)
            out = [tuple(r) for r in itertools.islice(view, case["k"] + 1)]
        except Exception as ex:
            return exc_fail("files/" + e.name, ex)
        res.append((out, src.bytes_read, at_construction, os.path.getsize(path)))
    ctx.label("entry:" + e.name, "stage:" + case["stage"])
    (o1, b1, c1, s1), (o2, b2, c2, s2) = res
    if c1 or c2:
        return Fail("files/%s/construct-reads" % e.name, "construction read %d / %d bytes" % (c1, c2))
    if o1 != o2:
        return Fail("files/%s/prefix-differs" % e.name, "%r vs %r" % (o1, o2))
    if b1 != b2:
        return Fail("files/%s/bytes-depend-on-length" % e.name, "read %d bytes of %d and %d bytes of %d for %d rows" % (b1, s1, b2, s2, case["k"]))
    if b2 > 4 * 8192 + 1024:
        return Fail("files/%s/bytes-exceed-bound" % e.name, "read %d bytes for %d rows" % (b2, case["k"]))
    ctx.nontrivial(case["k"] >= 1 and b1 < s1)
    return None


# ---- fromdicts over a generator: a one-shot source behind a spill file; repeated short looks must stay short ------------
def generator_cases(tier):
    for header_given in (True, False):
        for k in (0, 1, 3, 6):
            for takes in (1, 2, 3):
                yield {"header_given": header_given, "k": k, "takes": takes}


def check_generator(case, ctx):
    hdr = list(catalog.H)
    block = [[1, "a", 2, "x"], [None, "b", None, "y"], [3, "c", 1, "xz"]]
    k, sample = case["k"], 4
    res = []
    for n in (60, 6000):
        src = Cyclic(hdr, block, n)

        def dicts(src=src):
            it = iter(src)
            next(it)
            for r in it:
                yield dict(zip(hdr, r))
        try:
            view = etl.fromdicts(dicts(), header=hdr) if case["header_given"] else etl.fromdicts(dicts(), sample=sample)
            c0 = src.data_pulls
            outs, pulls = [], []
            for _ in range(case["takes"]):
                it = iter(view)
                outs.append([tuple(r) for r in itertools.islice(it, k + 1)])
                del it
                pulls.append(src.data_pulls)
        except Exception as ex:
            return exc_fail("generators/fromdicts", ex)
        res.append((c0, outs, pulls))
    ctx.label("header-given" if case["header_given"] else "header-sampled", "takes:%d" % case["takes"])
    ctx.nontrivial(k >= 1 and case["takes"] >= 2)
    (c1, o1, p1), (c2, o2, p2) = res
    if c1 or c2:
        return Fail("generators/fromdicts/construct-pulls", "construction pulled %d / %d dicts from the generator" % (c1, c2))
    if o1 != o2 or any(o != o2[0] for o in o2):
        return Fail("generators/fromdicts/rows-differ", "looks of %d items gave %r (60-row source) and %r (6000-row source)" % (k + 1, o1, o2))
    if p1 != p2:
        return Fail("generators/fromdicts/pulls-depend-on-length", "%d looks of %d items pulled %r dicts from a 60-row source but %r from a 6000-row source" % (case["takes"], k + 1, p1, p2))
    bound = max(k, 0 if case["header_given"] else sample) + 3
    if max(p2) > bound:
        return Fail("generators/fromdicts/pulls-exceed-bound", "%d looks of %d items each pulled %r dicts in total from the generator (bound %d)" % (case["takes"], k + 1, p2, bound))
    return None


SUBS = [
    Sub("generators", check_generator, enumerate=generator_cases),
    Sub("construct", check_construct, strategy=construct_case, quick=6000, thorough=60000),
    Sub("stream", check_stream, strategy=stream_case, quick=4000, thorough=80000),
    Sub("binary", check_binary, enumerate=binary_cases),
    Sub("fromdb", check_db, enumerate=db_cases),
    Sub("presorted", check_presorted, enumerate=presorted_cases),
    Sub("vis", check_vis, enumerate=vis_cases),
    Sub("files", check_files, strategy=file_case, quick=64, thorough=640),
]
KNOWN = {}

# the method interface reaches the same functions (shared exhaustive sub-check, see pv/fluent.py)
from pv import fluent  # noqa: E402
SUBS.append(fluent.sub(ID))
RULE += fluent.RULE

# cases at scale (see pv/scale.py)
RULE += scale.RULE
