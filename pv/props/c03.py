"""C03 - transformations never modify their inputs or rows already delivered."""
from hypothesis import strategies as st

from pv import catalog, catgen, codec
from pv import scale
from pv.core import Sub, Fail, exc_fail

ID = "C03"
LEVEL = "exploration"
RULE = ("Hypothesis draws (catalogue entry, mutable list-of-lists sources incl. ragged rows, evaluation mode: full pass / "
        "two passes / partial pass abandoned after j rows). Invariants: every source is type-strictly equal to its "
        "pre-evaluation snapshot; every yielded row object is, at the end, type-strictly equal to the snapshot taken "
        "when it was yielded. Non-trivial = sources have >=2 data rows and the view yields >=2 data rows (partial: "
        "1 <= j < len). Distinct by digest of (entry, sources, mode).")
ASSUMPTIONS = [
    "operators are exercised with the fixed valid arguments of pv/catalog.py (argument objects are not asserted)",
    "rectangular sources for operators that document nothing about ragged rows",
    "file and random extractors have no in-memory source and are left to C01/C15",
]

NAMES = [n for n, e in catalog.ENTRIES.items() if e.n >= 1 and not e.has("file")]


def case(tier, shard=0, nshards=1):
    # each shard owns a slice of the catalogue, so that every entry gets a fair share of cases
    return _case(tier, NAMES[shard::nshards] or NAMES)


case.sharded = True


@st.composite
def _case(draw, tier, names):
    c = draw(catgen.cat_case(names, max_rows=5 if tier == "quick" else 9))
    c["mode"] = draw(st.sampled_from(["full", "two", "partial"]))
    c["j"] = draw(st.integers(0, 6))
    e = catalog.get(c["entry"])
    # strategy variants hand the caller's own row/header objects to different code paths
    variants = ["default"] + (["chunk", "nocache"] if e.has("sorted") else []) + (["presorted", "presorted"] if e.has("presorted") else [])
    c["variant"] = draw(st.sampled_from(variants))
    return c


def _widened(case, ctx):
    """Width instead of length: one case in eight gets 33-130 extra fields on every source (rows that were short stay
    short), and dict cells get 20 extra keys of which some rows lack a few - in-place padding and `setdefault`-style
    fill-ins only show on rows / dicts that are incomplete."""
    b = scale.derive(case, odds=8, sizes=[0], wide=True)
    if not b:
        return case
    b = dict(b, rows=0, wide=b["wide"] or 40)
    S = []
    for t in case["sources"]:
        t2 = scale.apply(t, b)
        for i, r in enumerate(t2[1:]):
            for j, v in enumerate(r):
                if isinstance(v, dict):
                    r[j] = dict(v, **dict(("x%d" % k, k) for k in range(20) if (i + k) % 5))
        S.append(t2)
    ctx.label("wide")
    return dict(case, sources=S)


def check(case, ctx):
    case = _widened(case, ctx)
    e = catalog.get(case["entry"])
    S = codec.snapshot(case["sources"])  # fresh mutable copy
    variant = case.get("variant", "default")
    kw = {}
    if variant == "presorted":
        from pv.ref import base as R
        if any(len(r) != len(t[0]) for t in S for r in t[1:]):
            variant = "default"  # presorted inputs are kept rectangular (see C11)
        else:
            S = [[list(r) for r in R.ref_sort(t, e.presort)] for t in S]
            kw = {"presorted": True}
    if variant == "chunk":
        kw = {"buffersize": 2, "tempdir": ctx.tmpdir()}
    elif variant == "nocache":
        kw = {"cache": False}
    snap = codec.snapshot(S)
    mode = case["mode"]
    ctx.label("entry:" + e.name, "mode:" + mode, "variant:" + variant)
    n_src = min(len(t) - 1 for t in S)
    try:
        res = catgen.build(e, S, **kw)
        if e.has("nonview"):
            e.norm(res)
            if mode == "two" and not e.has("oneshot"):
                e.norm(catgen.build(e, S))
            if not codec.strict_eq(S, snap):
                return Fail(e.name + "/source-mutated", "sources %r became %r" % (snap, S))
            ctx.nontrivial(n_src >= 2)
            return None
        held, copies = [], []
        passes = 2 if mode == "two" else 1
        nrows = 0
        for p in range(passes):
            it = iter(res)
            for i, row in enumerate(it):
                held.append(row)
                copies.append(codec.snapshot(row))
                if p == 0:
                    nrows = i
                if mode == "partial" and i >= case["j"]:
                    break
            del it
    except Exception as ex:
        # totality is C20/C12's business; an operator rejecting this input says nothing about mutation
        if not codec.strict_eq(S, snap):
            return Fail(e.name + "/source-mutated", "sources %r became %r (then %s)" % (snap, S, type(ex).__name__))
        ctx.label("rejected:" + type(ex).__name__)
        return None
    if not codec.strict_eq(S, snap):
        return Fail(e.name + "/source-mutated", "sources %r became %r" % (snap, S))
    # views with a cache offer clearcache(): dropping the cache is part of using the view, and the cache may hold the very
    # header / row objects of the source
    if hasattr(res, "clearcache"):
        try:
            res.clearcache()
        except Exception as ex:
            return exc_fail(e.name + "/clearcache", ex)
        ctx.label("clearcache")
        if not codec.strict_eq(S, snap):
            return Fail(e.name + "/source-mutated-by-clearcache", "after clearcache() the sources %r became %r" % (snap, S))
    for row, cp in zip(held, copies):
        if not codec.strict_eq(codec.snapshot(row), cp):
            return Fail(e.name + "/yielded-row-mutated", "row yielded as %r is now %r" % (cp, row))
    ctx.nontrivial(n_src >= 2 and nrows >= 2 and (mode != "partial" or case["j"] < nrows))
    return None


SUBS = [Sub("immutability", check, strategy=case, quick=12000, thorough=150000)]
KNOWN = {}

# cases at scale (see pv/scale.py)
RULE += scale.RULE
