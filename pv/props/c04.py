"""C04 - mixed-type ordering is one consistent total preorder: None < numbers < rest."""
import datetime as dt
import itertools
from decimal import Decimal

import petl as etl
from petl.comparison import Comparable
from hypothesis import strategies as st

from pv import gen, codec, catgen
from pv import scale
from pv.core import Sub, Fail, exc_fail
from pv.order import ref_cmp, rank_class
from pv.ref import base as R
from pv.ref import joins as RJ

ID = "C04"
LEVEL = "exploration"
RULE = ("Sub 'laws': triples (a,b,c) drawn from a small generated pool over the stated value domain (None, bool, int incl. "
        ">2^64, float incl. +-inf/-0.0, Decimal, bytes, str, date, datetime, time, nested lists/tuples); checks on petl's "
        "Comparable: irreflexive, asymmetric, transitive, transitive incomparability, equivalence <=> ==, <=/>/>= consistent "
        "with < and == (also against an unwrapped scalar right operand), and agreement of every pair with the independently "
        "written ordering pv/order.py. Sub 'triples-exhaustive' (thorough): all triples of a 50-value representative set. "
        "Sub 'consumers': sort output order, issorted (all key/reverse/strict forms), the ordered selectors and the six "
        "sort-merge joins (output keys ascending, rows paired exactly by the ordering's equivalence) vs the reference "
        "ordering on generated tables. Non-trivial = the values span >=2 rank classes, or include a nested "
        "sequence, or two == values of different type. Distinct by digest.")
ASSUMPTIONS = [
    "value domain as stated: no NaN, naive datetimes only, finite Decimals",
    "list and tuple are one type for the ordering (element-wise); == between a list and a tuple is judged by Comparable.__eq__",
    "pv/order.py is written from the statement, not from petl/comparison.py",
]

REP = [None, False, True, 0, 1, -1, 2, 2 ** 70, 0.0, -0.0, 1.0, 2.5, float("inf"), float("-inf"), Decimal("1"),
       Decimal("2.5"), Decimal("-3"), b"", b"a", b"b", "", "a", "b", "B", "1", "\xe9", dt.date(2020, 1, 1),
       dt.date(2020, 1, 2), dt.datetime(2020, 1, 1, 0, 0), dt.datetime(2020, 1, 1, 12), dt.time(0, 0), dt.time(12, 30),
       (), [], (1,), [1], (1, 2), [1, None], (None,), ("a",), [b"a"], ((1,),), [[1], 2], (1, "a"), [2]]
REP += [Decimal("0.1"), 0.1, Decimal(10 ** 16 + 1), 1e16, 10 ** 16 + 1]
assert len(REP) == 50


@st.composite
def triple(draw, tier):
    p = draw(gen.pool(gen.value, 3, 7))
    if draw(st.integers(0, 3)) == 0:
        p.extend(draw(st.sampled_from(gen.NEAR)))
    # nested sequences sharing prefixes with pool members
    if draw(st.booleans()):
        base = draw(st.sampled_from(p))
        if isinstance(base, (list, tuple)):
            ext = list(base) + [draw(gen.scalar)]
            p.append(ext if draw(st.booleans()) else tuple(ext))
        else:
            p.append([base])
            p.append((base, draw(gen.scalar)))
    pick = st.sampled_from(p)
    return [draw(pick), draw(pick), draw(pick)]


def _nontrivial(vals):
    classes = set(rank_class(v) for v in vals)
    if len(classes) >= 2 or "seq" in classes:
        return True
    for a, b in itertools.combinations(vals, 2):
        if type(a) is not type(b) and ref_cmp(a, b) == 0:
            return True
    return False


def _scalar(v):
    return not isinstance(v, (list, tuple))


def _nest(v, depth):
    for d in range(depth):
        v = (v,) if d % 2 else [v]
    return v


def check_triple(case, ctx):
    nb = scale.derive(list(case), odds=12, sizes=[17, 20, 33, 60], wide=False)
    if nb:
        # depth instead of length: the three values wrapped in 17 .. 60 levels of one-element lists / tuples - sequences are
        # compared element-wise at every depth
        case = [_nest(v, nb["rows"]) for v in case]
        ctx.label("deeply-nested")
    a, b, c = case
    ctx.nontrivial(_nontrivial(case))
    ctx.label(*sorted(set("class:" + rank_class(v) for v in case)))
    A, B, C = Comparable(a), Comparable(b), Comparable(c)
    try:
        lt = {(i, j): bool(x < y) for (i, x), (j, y) in itertools.product(enumerate((A, B, C)), repeat=2)}
        eq = {(i, j): bool(x == y) for (i, x), (j, y) in itertools.product(enumerate((A, B, C)), repeat=2)}
    except Exception as ex:
        return exc_fail("laws", ex)
    vals = (a, b, c)
    for i in range(3):
        if lt[i, i]:
            return Fail("laws/irreflexive", "%r < itself" % (vals[i],))
        if not eq[i, i]:
            return Fail("laws/eq-reflexive", "%r != itself" % (vals[i],))
    for i, j in itertools.permutations(range(3), 2):
        x, y = vals[i], vals[j]
        if lt[i, j] and lt[j, i]:
            return Fail("laws/asymmetric", "%r < %r and %r < %r" % (x, y, y, x))
        inc = not lt[i, j] and not lt[j, i]
        if inc != eq[i, j]:
            return Fail("laws/equivalence-vs-eq", "%r, %r: incomparable=%r but ==%r" % (x, y, inc, eq[i, j]))
        if _scalar(x) and _scalar(y) and eq[i, j] != (x == y):
            return Fail("laws/eq-vs-native", "%r, %r: Comparable == is %r, native == is %r" % (x, y, eq[i, j], x == y))
        # agreement with the independent reference
        rc = ref_cmp(x, y)
        if lt[i, j] != (rc < 0):
            return Fail("laws/ref-order", "%r < %r is %r, reference says cmp=%d" % (x, y, lt[i, j], rc))
        if eq[i, j] != (rc == 0):
            return Fail("laws/ref-equivalence", "%r == %r is %r, reference says cmp=%d" % (x, y, eq[i, j], rc))
        # derived operators, wrapped right operand
        X, Y = Comparable(x), Comparable(y)
        try:
            le, gt, ge = bool(X <= Y), bool(X > Y), bool(X >= Y)
        except Exception as ex:
            return exc_fail("laws/derived", ex)
        if le != (lt[i, j] or eq[i, j]) or gt != lt[j, i] or ge != (not lt[i, j]):
            return Fail("laws/derived", "%r vs %r: <=%r >%r >=%r with <%r ==%r rev<%r" % (x, y, le, gt, ge, lt[i, j], eq[i, j], lt[j, i]))
        # unwrapped scalar right operand (reference values and cells that are not wrapped)
        if _scalar(y):
            try:
                u = (bool(X < y), bool(X == y), bool(X <= y), bool(X > y), bool(X >= y))
            except Exception as ex:
                return exc_fail("laws/unwrapped", ex)
            if u != (lt[i, j], eq[i, j], le, gt, ge):
                return Fail("laws/unwrapped", "%r vs raw %r: %r, wrapped gives %r" % (x, y, u, (lt[i, j], eq[i, j], le, gt, ge)))
    for i, j, k in itertools.permutations(range(3), 3):
        if lt[i, j] and lt[j, k] and not lt[i, k]:
            return Fail("laws/transitive", "%r < %r < %r but not %r < %r" % (vals[i], vals[j], vals[k], vals[i], vals[k]))
        if (not lt[i, j] and not lt[j, i]) and (not lt[j, k] and not lt[k, j]) and (lt[i, k] or lt[k, i]):
            return Fail("laws/incomparability-transitive", "%r ~ %r ~ %r but %r, %r ordered" % (vals[i], vals[j], vals[k], vals[i], vals[k]))
    return None


def enum_triples(tier):
    for t in itertools.product(REP, repeat=3):
        yield list(t)


# ---- consumers ---------------------------------------------------------------------------------------
SELECTORS = ["selectlt", "selectle", "selectgt", "selectge", "selecteq", "selectne", "selectrangeopen",
             "selectrangeopenleft", "selectrangeopenright", "selectrangeclosed"]


@st.composite
def consumer_case(draw, tier):
    p = draw(gen.twinned_pool(gen.value, 3, 6, seq_twins=True))
    cell = st.sampled_from(p)
    nf = draw(st.sampled_from([1, 2, 3]))
    hdr = ["a", "b", "c"][:nf]
    tbl = draw(gen.table(hdr, [cell] * nf, max_rows=7 if tier == "quick" else 14, ragged=draw(st.booleans())))
    kind = draw(st.sampled_from(["issorted", "selector", "sort", "selector", "issorted", "mergejoin"]))
    c = {"kind": kind, "table": tbl}
    if kind == "mergejoin":
        # two rectangular tables keyed on their first field, both drawn from the same pool
        c["table"] = draw(gen.table(["a", "b"], [cell, st.integers(0, 3)], max_rows=6))
        c["right"] = draw(gen.table(["a", "c"], [cell, st.integers(0, 3)], max_rows=6))
        c["fn"] = draw(st.sampled_from(["join", "leftjoin", "rightjoin", "outerjoin", "antijoin", "lookupjoin"]))
        return c
    if kind == "issorted":
        presort = draw(st.booleans())
        c["key"] = draw(st.sampled_from([None, "a", 0, tuple(hdr), [hdr[-1]]]))
        c["reverse"] = draw(st.booleans())
        c["strict"] = draw(st.booleans())
        c["presort"] = presort
        # the table handed to issorted may itself be a petl sort view (same key and direction, the opposite direction, or
        # sorted by the first field only): what it delivers is what is judged
        c["view"] = draw(st.sampled_from([None, None, "same", "same", "opposite", "first"]))
    elif kind == "selector":
        c["selector"] = draw(st.sampled_from(SELECTORS))
        c["field"] = draw(st.sampled_from(hdr))
        c["value"] = draw(st.one_of(cell, gen.value))
        c["value2"] = draw(st.one_of(cell, gen.value))
        c["complement"] = draw(st.booleans())
    else:
        c["key"] = draw(st.sampled_from([None, "a", tuple(hdr)]))
        c["reverse"] = draw(st.booleans())
        c["form"] = draw(st.sampled_from(["lists", "lists"] + catgen.FORMS))
    return c


def _ref_select(name, v, x, y):
    c = ref_cmp(v, x)
    if name == "selectlt":
        return c < 0
    if name == "selectle":
        return c <= 0
    if name == "selectgt":
        return c > 0
    if name == "selectge":
        return c >= 0
    c2 = ref_cmp(v, y)
    if name == "selectrangeopen":
        return c >= 0 and c2 <= 0
    if name == "selectrangeopenleft":
        return c >= 0 and c2 < 0
    if name == "selectrangeopenright":
        return c > 0 and c2 <= 0
    if name == "selectrangeclosed":
        return c > 0 and c2 < 0
    raise KeyError(name)


def check_consumer(case, ctx):
    tbl = case["table"]
    kind = case["kind"]
    hdr = tbl[0]
    cells = [c for r in tbl[1:] for c in r]
    ctx.label("kind:" + kind)
    if kind == "issorted":
        key, reverse, strict = case["key"], case["reverse"], case["strict"]
        t = R.ref_sort(tbl, key, reverse) if case["presort"] else tbl
        t = [list(r) for r in t]
        vw = case.get("view")
        if vw:
            vkey, vrev = (0, False) if vw == "first" else (key, reverse if vw == "same" else not reverse)
            rows_seen = [list(r) for r in R.ref_sort(tbl, vkey, vrev)]
            t = etl.sort(codec.snapshot(tbl), vkey, reverse=vrev)
            ctx.label("input:sortview-" + vw)
        else:
            rows_seen = t
        idx = list(range(len(hdr))) if key is None else R.resolve(hdr, key)
        keys = [R.keyof(r, idx) for r in rows_seen[1:]]
        exp = R.is_sorted_seq(keys, reverse=reverse, strict=strict)
        ctx.label("issorted:%s" % exp)
        ctx.nontrivial(len(rows_seen) > 2 and _nontrivial(cells))
        try:
            got = etl.issorted(t, key=key, reverse=reverse, strict=strict)
        except Exception as ex:
            return exc_fail("issorted", ex)
        if bool(got) != exp:
            return Fail("issorted/verdict", "issorted(%r, key=%r, reverse=%r, strict=%r) = %r, reference %r (input: %s)" % (rows_seen, key, reverse, strict, got, exp, "sort view " + vw if vw else "list"))
        return None
    if kind == "sort":
        key, reverse = case["key"], case["reverse"]
        idx = list(range(len(hdr))) if key is None else R.resolve(hdr, key)
        ctx.nontrivial(len(tbl) > 2 and _nontrivial(cells))
        skw = {}
        bb = scale.derive(case, odds=15, sizes=[300, 700, 1500], wide=False)
        if bb and len(tbl) > 1:
            # at scale: hundreds of rows sorted through a hundred or more chunk files
            tbl = scale.apply(tbl, bb)
            skw = {"buffersize": (2, 7, 3, 1000)[bb["rows"] % 4] if bb["rows"] < 1000 else (7, 1000, 5, 700)[len(tbl[1]) % 4], "tempdir": ctx.tmpdir()}
            scale.label(ctx, bb)
        try:
            got = [tuple(r) for r in etl.sort(catgen.shape(codec.snapshot(tbl), case.get("form", "lists")), key, reverse=reverse, **skw)]
        except Exception as ex:
            return exc_fail("sort", ex)
        keys = [R.keyof(r, idx) for r in got[1:]]
        if not R.is_sorted_seq(keys, reverse=reverse):
            return Fail("sort/order", "sort output keys %r not ordered (reverse=%r)" % (keys, reverse))
        return None
    if kind == "mergejoin":
        fn, right = case["fn"], case["right"]
        ctx.label("join:" + fn)
        jk = {"join": "inner", "leftjoin": "left", "rightjoin": "right", "outerjoin": "outer", "antijoin": "anti",
              "lookupjoin": "lookup"}[fn]
        ehdr, erows, _lk = RJ.ref_join(tbl, right, jk, key="a")
        lkeys = [r[0] for r in tbl[1:]]
        ctx.nontrivial(len(erows) >= 2 and _nontrivial(lkeys + [r[0] for r in right[1:]]))
        try:
            got = [tuple(r) for r in getattr(etl, fn)(tbl, right, key="a")]
        except Exception as ex:
            return exc_fail(fn, ex)
        keys = [(r[0],) for r in got[1:]]
        if not R.is_sorted_seq(keys):
            return Fail(fn + "/key-order", "%s(%r, %r, key='a') output keys %r not ascending under the ordering" % (fn, tbl, right, keys))
        if not R.same_multiset(got[1:], erows):
            return Fail(fn + "/pairs", "%s(%r, %r, key='a') gave %r, rows paired by key equivalence are %r" % (fn, tbl, right, got[1:], erows))
        return None
    name, field, x, y, comp = case["selector"], case["field"], case["value"], case["value2"], case["complement"]
    fi = hdr.index(field)
    ctx.label("selector:" + name)
    if name in ("selecteq", "selectne"):
        # equality selectors use native ==; they must agree with the ordering's equivalence on scalars
        if not _scalar(x):
            return None
        exp_rows = [tuple(r) for r in tbl[1:]
                    if ((ref_cmp(R.cell(r, fi), x) == 0 and _scalar(R.cell(r, fi))) == (name == "selecteq")) != comp]
        args = (x,)
    elif name.startswith("selectrange"):
        exp_rows = [tuple(r) for r in tbl[1:] if _ref_select(name, R.cell(r, fi), x, y) != comp]
        args = (x, y)
    else:
        exp_rows = [tuple(r) for r in tbl[1:] if _ref_select(name, R.cell(r, fi), x, None) != comp]
        args = (x,)
    ctx.nontrivial(0 < len(exp_rows) < len(tbl) - 1 and _nontrivial(cells + [x, y]))
    try:
        got = [tuple(r) for r in getattr(etl, name)(tbl, field, *args, complement=comp)]
    except Exception as ex:
        return exc_fail(name, ex)
    if got[1:] != exp_rows:
        return Fail(name + "/rows", "%s(%r, %r, %r, complement=%r) gave %r, reference %r" % (name, tbl, field, args, comp, got[1:], exp_rows))
    return None


SUBS = [
    Sub("laws", check_triple, strategy=triple, quick=50000, thorough=2000000),
    Sub("triples-exhaustive", check_triple, enumerate=enum_triples, tiers=("thorough",)),
    Sub("consumers", check_consumer, strategy=consumer_case, quick=12000, thorough=200000),
]
KNOWN = {}

# second use of one view object after its sources were edited (shared sub-check, see pv/reuse.py): the views that consume
# the ordering - sort, mergesort, the ordered selectors, the merge joins
from pv import reuse  # noqa: E402
SUBS.append(reuse.sub(ID, quick=2000, thorough=20000, names=reuse.names_of("C05") + [
    n for n in reuse.names_of("C13") if n.startswith(("selectlt", "selectle", "selectgt", "selectge", "selectrange"))
] + [n for n in reuse.names_of("C06") if "cross" not in n and "unjoin" not in n]))
RULE += reuse.RULE

# the method interface reaches the same functions (shared exhaustive sub-check, see pv/fluent.py)
from pv import fluent  # noqa: E402
SUBS.append(fluent.sub(ID))
RULE += fluent.RULE

# cases at scale (see pv/scale.py)
RULE += scale.RULE
