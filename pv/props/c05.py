"""C05 - sort / mergesort: stable ordered permutation, same under every buffering strategy."""
import petl as etl
import petl.config as cfg
from hypothesis import strategies as st

from pv import gen, codec
from pv import scale
from pv.probes import BOOM_KINDS
from pv import catgen
from pv.core import Sub, Fail, exc_fail
from pv.ref import base as R

ID = "C05"
LEVEL = "exploration"
RULE = ("Hypothesis-generated (table, key, reverse, buffersize, cache, tempdir, passes) cases; the oracle is "
        "Python's stable sorted() under an independently written C04 ordering, compared as a type-strict "
        "row sequence on every pass; mergesort is compared with the reference sort of the reference cat. "
        "Non-trivial = at least two rows share a key and the run is chunked (buffersize <= nrows) or "
        "buffersize is within 1 of nrows; for mergesort: >=2 tables with >=2 rows sharing a key across "
        "tables. Distinct by digest of the whole case.")
ASSUMPTIONS = [
    "buffersize >= 1 (0 is outside the stated domain)",
    "headers have >= 1 field; field names are text",
    "cell values from the C04 domain (no NaN, naive datetimes)",
    "mergesort: field names distinct inside each table, named keys present in every table; presorted=True only where the "
    "harness can sort the inputs the way the merge sees them (every key cell present when missing is not None; one shared "
    "layout for key=None and index keys)",
]

KEYCOL = st.one_of(gen.keyish, gen.keyish, gen.value)


@st.composite
def sort_case(draw, tier):
    maxrows = 8 if tier == "quick" else 24
    nf = draw(st.integers(1, 4))
    hdr = draw(gen.header(n=nf))
    p = draw(gen.twinned_pool(KEYCOL, 2, 4, seq_twins=True))
    idc = draw(st.one_of(st.none(), st.integers(0, nf - 1))) if nf > 1 else None
    cols = [st.sampled_from(p) for _ in range(nf)]
    tbl = draw(gen.table(hdr, cols, max_rows=maxrows, ragged=draw(st.booleans()), id_col=idc))
    n = len(tbl) - 1
    kf = draw(st.sampled_from(["none", "name", "index", "compound", "one-tuple", "mixed"]))
    if kf == "none":
        key = None
    elif kf == "name":
        key = draw(st.sampled_from(hdr))
    elif kf == "index":
        key = draw(st.integers(0, nf - 1))
    elif kf == "one-tuple":
        key = (draw(st.sampled_from(hdr)),)
    elif kf == "compound":
        key = draw(st.lists(st.sampled_from(hdr), min_size=min(2, nf), max_size=min(3, nf), unique=True))
        key = tuple(key) if draw(st.booleans()) else key
    else:
        key = tuple(draw(st.lists(st.one_of(st.sampled_from(hdr), st.integers(0, nf - 1)), min_size=1,
                                  max_size=min(3, nf), unique_by=lambda s: s if isinstance(s, int) else hdr.index(s))))
    # one case in ten at scale: hundreds / thousands of rows, chunk sizes that give a few hundred chunk files, or chunks
    # of exactly 1000 rows
    big = scale.derive([tbl, repr(key)], sizes=[130, 300, 600, 1001, 2049], wide=False) if n else None
    # an int-looking field name such as '0' used by name is fine; an int key is always an index
    return {
        "blowup": big, "big_buffersize": draw(st.sampled_from([None, 1000, 7, "n/300", "n/130", "n/2"])),
        "table": tbl, "key": key, "reverse": draw(st.booleans()),
        "buffersize": draw(gen.buffersizes(n)), "cache": draw(st.booleans()),
        "tempdir": draw(st.booleans()), "passes": draw(st.integers(1, 3)),
        "via_config": draw(st.booleans()),
        # optionally the very first pass hits a transient source fault at this data row; "every pass" includes the retry
        "fail_first": draw(st.one_of(st.none(), st.none(), st.integers(0, max(0, n - 1)))) if n else None,
        "fail_kind": draw(st.sampled_from(BOOM_KINDS)),
        # the container form of the input (tuple of tuples, __iter__-only object, rows that are neither list nor tuple ...)
        "form": draw(st.sampled_from(["lists", "lists", "lists"] + catgen.FORMS)),
        # the input may itself be a sorted petl view (by the first field, either direction) - sort of a sort
        "upstream": draw(st.sampled_from(["none", "none", "none", "sortfirst", "sortfirst-rev", "sortsame", "sortlast", "sortlast-rev"])),
    }


def _key_indices(hdr, key):
    return list(range(len(hdr))) if key is None else R.resolve(hdr, key)


def check_sort(case, ctx):
    tbl, key, reverse = case["table"], case["key"], case["reverse"]
    bs, cache = case["buffersize"], case["cache"]
    if case.get("blowup"):
        tbl = scale.apply(tbl, case["blowup"])
        scale.label(ctx, case["blowup"])
        nb = len(tbl) - 1
        bb = case.get("big_buffersize")
        # (never more than ~400 chunk files: every chunk is an open file during the merge)
        bs = bb if not isinstance(bb, str) else max(1, nb // int(bb.split("/")[1]))
        if bs is not None and bs < nb / 400.0:
            bs = max(1, nb // 300)
        case = dict(case, table=tbl, buffersize=bs, fail_first=None, upstream="none", passes=min(case["passes"], 2))
    n = len(tbl) - 1
    src = catgen.shape(codec.snapshot(tbl), case.get("form", "lists"))
    if case.get("form", "lists") != "lists":
        ctx.label("form:" + case["form"])
    up = case.get("upstream", "none")
    if case.get("fail_first") is not None:
        up = "none"
    inner = tbl
    # the inner sort names its key the way the outer key spec does (first element: same field name or index)
    k0 = 0 if key is None else (key[0] if isinstance(key, (list, tuple)) else key)
    if up == "sortfirst":
        inner = [list(r) for r in R.ref_sort(tbl, k0)]
    elif up == "sortfirst-rev":
        inner = [list(r) for r in R.ref_sort(tbl, k0, True)]
    elif up == "sortsame":
        inner = [list(r) for r in R.ref_sort(tbl, key, reverse)]
    elif up in ("sortlast", "sortlast-rev"):
        # the two-pass idiom sort(sort(t, k2), k1): rows tied on the outer key keep the order the inner sort gave them
        inner = [list(r) for r in R.ref_sort(tbl, len(tbl[0]) - 1, up.endswith("rev"))]
    exp = R.ref_sort(inner, key, reverse)
    idx = _key_indices(tbl[0], key)
    keys = [R.keyof(r, idx) for r in exp[1:]]
    dup = any(R.ref_cmp(a, b) == 0 for a, b in zip(keys, keys[1:]))
    chunked = bs is not None and bs <= n
    ctx.label("bs:" + ("default" if bs is None else "lt" if bs < n else "eq" if bs == n else "gt"),
              "reverse" if reverse else "forward", "cache" if cache else "nocache",
              "passes:%d" % case["passes"], "key:" + ("none" if key is None else type(key).__name__))
    ctx.nontrivial(dup and n >= 2 and (chunked or (bs is not None and abs(bs - n) <= 1)))
    kw = {"reverse": reverse, "cache": cache}
    if case["tempdir"]:
        kw["tempdir"] = ctx.tmpdir()
    old = cfg.sort_buffersize
    try:
        if bs is not None and case["via_config"]:
            cfg.sort_buffersize = bs
        elif bs is not None:
            kw["buffersize"] = bs
        try:
            ff = case.get("fail_first")
            if ff is not None:
                from pv.probes import Counting, Boom
                csrc = Counting(src)
                csrc.fail_at = ff
                csrc.fail_kind = case.get("fail_kind", "plain")
                view = etl.sort(csrc, key, **kw)
                try:
                    list(view)
                    return Fail("sort/fault-swallowed", "source raised at data row %d but the pass completed" % ff)
                except Boom:
                    pass
                csrc.fail_at = None
                ctx.label("retry-after-failed-pass")
            else:
                insrc = src
                if up == "sortfirst":
                    insrc = etl.sort(src, k0)
                elif up == "sortfirst-rev":
                    insrc = etl.sort(src, k0, reverse=True)
                elif up == "sortsame":
                    insrc = etl.sort(src, key, reverse=reverse)
                elif up in ("sortlast", "sortlast-rev"):
                    insrc = etl.sort(src, len(tbl[0]) - 1, reverse=up.endswith("rev"))
                ctx.label("upstream:" + up)
                view = etl.sort(insrc, key, **kw)
            outs = [[tuple(r) for r in view] for _ in range(case["passes"])]
        except Exception as e:
            return exc_fail("sort", e)
    finally:
        cfg.sort_buffersize = old
    for p, got in enumerate(outs):
        if not got or got[0] != exp[0]:
            return Fail("sort/header", "pass %d header %r expected %r" % (p, got[:1], exp[0]))
        if len(got) != len(exp):
            return Fail("sort/rowcount", "pass %d: %d rows, expected %d" % (p, len(got) - 1, len(exp) - 1))
        if not codec.strict_eq(got, exp):
            from collections import Counter
            if Counter(map(codec.dumps, got)) != Counter(map(codec.dumps, exp)):
                return Fail("sort/multiset", "pass %d got %r expected %r" % (p, got, exp))
            gk = [R.keyof(r, idx) for r in got[1:]]
            if not R.is_sorted_seq(gk, reverse=reverse):
                return Fail("sort/order", "pass %d keys %r" % (p, gk))
            return Fail("sort/stability", "pass %d got %r expected %r" % (p, got, exp))
    if case.get("form", "lists") == "lists" and not codec.strict_eq(src, tbl):
        return Fail("sort/source-mutated", "source changed")
    return None


def _keys_present(tables, key):
    """Every data row of every table holds all of its key cells (rows may still be short beyond them)."""
    for t in tables:
        hdr = t[0]
        if key is None:
            need = len(hdr)
        else:
            ks = key if isinstance(key, (list, tuple)) else [key]
            need = 1 + max((k if isinstance(k, int) else hdr.index(k)) for k in ks)
        if any(len(r) < need for r in t[1:]):
            return False
    return True


@st.composite
def merge_case(draw, tier):
    maxrows = 6 if tier == "quick" else 14
    nt = draw(st.integers(1, 3))
    same_hdr = draw(st.booleans())
    p = draw(gen.twinned_pool(KEYCOL, 2, 5, seq_twins=True))
    names = ["k", "j", "a", "b", "c"]
    tables = []
    base_extra = draw(st.lists(st.sampled_from(names[2:]), max_size=2, unique=True))
    for t in range(nt):
        if same_hdr and t > 0:
            hdr = list(tables[0][0])
        else:
            extra = base_extra if same_hdr else draw(st.lists(st.sampled_from(names[2:]), max_size=2, unique=True))
            hdr = draw(st.permutations(["k", "j"] + list(extra)))
        cols = [st.sampled_from(p) for _ in hdr]
        ragged = draw(st.booleans())
        tables.append(draw(gen.table(list(hdr), cols, max_rows=maxrows, ragged=ragged)))
    # key=None (lexical) and index keys refer to the layout of the OUTPUT header (that of cat()), also when the inputs
    # order their fields differently
    kf = draw(st.sampled_from(["k", "kj", "one-tuple", "none", "index"]))
    key = {"k": "k", "kj": ("k", "j"), "one-tuple": ("k",), "none": None}.get(kf)
    if kf == "index":
        key = draw(st.integers(0, 1 if not same_hdr else len(tables[0][0]) - 1))   # k and j are in every table
    any_ragged = any(len(r) != len(t[0]) for t in tables for r in t[1:])
    missing = draw(st.sampled_from([None, "M"]))
    header = None
    if draw(st.integers(0, 3)) == 0 and key is not None and kf != "index":
        allf = []
        for t in tables:
            for f in t[0]:
                if f not in allf:
                    allf.append(f)
        # an explicit header must still contain the key fields
        header = draw(st.permutations(allf))
        drop = draw(st.lists(st.sampled_from(allf), max_size=1))
        header = [f for f in header if f in ("k", "j") or f not in drop]
    n = max(len(t) - 1 for t in tables)
    return {"tables": tables, "key": key, "reverse": draw(st.booleans()), "missing": missing,
            # (presorted inputs are sorted by the harness on the raw key cells; with a non-None `missing` the key of a row too
            #  short to hold a key field becomes `missing` only after padding, so presorted then needs every key cell present)
            #  (and positional keys need inputs that share one layout, or the harness would sort them by other columns)
            "header": header, "presorted": (draw(st.booleans()) and (missing is None or _keys_present(tables, key))
                                           and (same_hdr or kf not in ("none", "index"))), "buffersize": draw(gen.buffersizes(n)),
            "passes": draw(st.integers(1, 2)),
            # inputs that are themselves sort views on the same key, in the same or the opposite direction
            "upstream": [draw(st.sampled_from(["none", "none", "none", "same", "opposite"])) for _ in tables]}


def check_merge(case, ctx):
    tables, key, reverse = case["tables"], case["key"], case["reverse"]
    missing, header = case["missing"], case["header"]
    ups = case.get("upstream") or ["none"] * len(tables)
    if case["presorted"]:
        ups = ["same" if u == "opposite" else u for u in ups]
    updir = [None if u == "none" else (reverse if u == "same" else not reverse) for u in ups]
    # the effective inputs: an upstream sort view delivers the reference sort of its table (checked by sub 'sort')
    eff = [t if d is None else [list(r) for r in R.ref_sort(t, key, d)] for t, d in zip(tables, updir)]
    exp_cat = R.ref_cat(eff, missing=missing, header=header)
    exp = R.ref_sort(exp_cat, key, reverse)
    srcs = [codec.snapshot(t) for t in tables]
    if case["presorted"]:
        srcs = [[list(r) for r in R.ref_sort(t, key, reverse)] for t in srcs]
    srcs = [t if d is None else etl.sort(t, key, reverse=d) for t, d in zip(srcs, updir)]
    if any(d is not None for d in updir):
        ctx.label("upstream-sortview")
    idx = _key_indices(exp[0], key)
    keys = [R.keyof(r, idx) for r in exp[1:]]
    dup = any(R.ref_cmp(a, b) == 0 for a, b in zip(keys, keys[1:]))
    ctx.label("tables:%d" % len(tables), "presorted" if case["presorted"] else "unsorted",
              "reverse" if reverse else "forward", "key:" + ("none" if key is None else type(key).__name__),
              "header" if header else "noheader")
    ctx.nontrivial(dup and sum(1 for t in tables if len(t) > 1) >= 2)
    kw = {"key": key, "reverse": reverse, "presorted": case["presorted"], "missing": missing}
    if header is not None:
        kw["header"] = header
    if case["buffersize"] is not None and not case["presorted"]:
        kw["buffersize"] = case["buffersize"]
    try:
        view = etl.mergesort(*srcs, **kw)
        outs = [[tuple(r) for r in view] for _ in range(case["passes"])]
    except Exception as e:
        return exc_fail("mergesort", e)
    for p, got in enumerate(outs):
        if not got or tuple(got[0]) != exp[0]:
            return Fail("mergesort/header", "pass %d header %r expected %r" % (p, got[:1], exp[0]))
        if not codec.strict_eq(got, exp):
            from collections import Counter
            if Counter(map(codec.dumps, got)) != Counter(map(codec.dumps, exp)):
                return Fail("mergesort/multiset", "pass %d got %r expected %r" % (p, got, exp))
            gk = [R.keyof(r, idx) for r in got[1:]]
            if not R.is_sorted_seq(gk, reverse=reverse):
                return Fail("mergesort/order", "pass %d keys %r" % (p, gk))
            return Fail("mergesort/stability", "pass %d got %r expected %r" % (p, got, exp))
    return None


SUBS = [
    Sub("sort", check_sort, strategy=sort_case, quick=6000, thorough=150000),
    Sub("mergesort", check_merge, strategy=merge_case, quick=3000, thorough=60000),
]
KNOWN = {}

# second use of one view object after its sources were edited (shared sub-check, see pv/reuse.py)
from pv import reuse  # noqa: E402
SUBS.append(reuse.sub(ID))
RULE += reuse.RULE

# field names that are not plain str (shared sub-check, see pv/names.py)
from pv import names  # noqa: E402
SUBS.append(names.sub(ID))
RULE += names.RULE

# inputs handed in through neutral petl views (shared sub-check, see pv/upstream.py)
from pv import upstream  # noqa: E402
SUBS.append(upstream.sub(ID))
RULE += upstream.RULE

# the method interface reaches the same functions (shared exhaustive sub-check, see pv/fluent.py)
from pv import fluent  # noqa: E402
SUBS.append(fluent.sub(ID))
RULE += fluent.RULE

# cases at scale (see pv/scale.py)
RULE += scale.RULE
