"""C06 - sort-merge joins implement the relational join operators exactly."""
import petl as etl
from hypothesis import strategies as st

from pv import gen, codec
from pv import scale
from pv import catgen
from pv.core import Sub, Fail, exc_fail
from pv.order import ref_cmp
from pv.ref import base as R, joins as RJ

ID = "C06"
LEVEL = "exploration"
RULE = ("Hypothesis draws two tables whose key columns come from one small pool (None, equal values of different numeric "
        "types, text/bytes, nested sequences, duplicates on both sides), ragged rows, either "
        "side possibly header-only, buffersize None or 1-3 (chunked sorts), key given as key= (single/compound), lkey/rkey with different names, or natural; "
        "lprefix/rprefix; missing in {None,'M'}. Oracle: nested-loop reference join on the squared-up inputs: header, "
        "multiset of data rows, and output keys non-decreasing under the independent ordering; crossjoin of 2-3 tables "
        "vs itertools.product as a sequence. Non-trivial = both sides non-empty with >=1 matching and >=1 unmatched key, "
        "or one side empty and a None key on the other. Distinct by digest.")
ASSUMPTIONS = [
    "every table has a header row (an entirely empty table is outside the statement)",
    "antijoin does not pad its output rows (it does not square up); an absent key cell is read as None, as squaring up would give",
    "within-group row order is not asserted (the statement says grouped in ascending key order)",
]

KINDS = {"join": "inner", "leftjoin": "left", "rightjoin": "right", "outerjoin": "outer", "antijoin": "anti",
         "lookupjoin": "lookup"}
KEYCELL = st.one_of(gen.keyish, gen.keyish, gen.keyish, gen.hvalue, st.lists(gen.keyish, max_size=2))


@st.composite
def join_case(draw, tier):
    maxrows = 6 if tier == "quick" else 14
    fn = draw(st.sampled_from(sorted(KINDS)))
    keyform = draw(st.sampled_from(["key1", "key2", "lr1", "lr2", "natural1", "natural2", "key1-tuple", "index0", "lrindex0"]))
    nk = 2 if keyform.endswith("2") else 1
    lk = ["k", "j"][:nk]
    rk = ["k2", "j2"][:nk] if keyform.startswith("lr") else list(lk)
    lextra = draw(st.lists(st.sampled_from(["a", "b"]), max_size=2, unique=True))
    rnames = ["c", "d"] if keyform.startswith("natural") else ["c", "d", "a"]
    rextra = draw(st.lists(st.sampled_from(rnames), max_size=2, unique=True))
    lh = draw(st.permutations(lk + lextra))
    rh = draw(st.permutations(rk + rextra))
    if keyform in ("index0", "lrindex0"):
        # the key given as the field INDEX 0 (a falsy but perfectly valid field selection): the key field comes first
        lh = [lk[0]] + [f for f in lh if f != lk[0]]
        rh = [rk[0]] + [f for f in rh if f != rk[0]]
    p = draw(gen.twinned_pool(KEYCELL, 2, 5, seq_twins=True))
    kc = st.sampled_from(p)
    vc = st.one_of(st.sampled_from(p), st.integers(0, 3))
    ragged = draw(st.booleans())
    lempty = draw(st.integers(0, 7)) == 0
    rempty = draw(st.integers(0, 7)) == 0
    L = draw(gen.table(list(lh), [kc if f in lk else vc for f in lh], max_rows=0 if lempty else maxrows, ragged=ragged))
    Rt = draw(gen.table(list(rh), [kc if f in rk else vc for f in rh], max_rows=0 if rempty else maxrows, ragged=ragged))
    c = {"fn": fn, "left": L, "right": Rt, "keyform": keyform}
    if keyform == "index0":
        c["key"] = 0
    elif keyform == "lrindex0":
        c["lkey"], c["rkey"] = 0, 0
    elif keyform.startswith("key"):
        c["key"] = lk[0] if keyform == "key1" else tuple(lk)
    elif keyform.startswith("lr"):
        c["lkey"] = lk[0] if nk == 1 else tuple(lk)
        c["rkey"] = rk[0] if nk == 1 else list(rk)
    if fn not in ("join", "antijoin"):
        c["missing"] = draw(st.sampled_from([None, None, "M", 0, ""]))
    if fn != "antijoin" and draw(st.integers(0, 3)) == 0:
        # either prefix alone, or both
        c["lprefix"] = draw(st.sampled_from(["l_", "", 1, None]))
        c["rprefix"] = draw(st.sampled_from(["r_", None]))
    # the inputs are sorted via temporary-file chunks as well: "first partner" and the row multiset must not depend on it
    c["buffersize"] = draw(st.sampled_from([None, None, 1, 2, 3]))
    # inputs that are themselves sort views on the join key (ascending or descending): the operator must not take them
    # for sorted input unless they are
    # ("asc-spelled": the sort view's key is written exactly the way the join's key argument is)
    c["upstream"] = [draw(st.sampled_from(["none", "none", "none", "asc", "desc", "asc-spelled"])) for _ in range(2)]
    # presorted=True on inputs the harness has sorted by the key (only where every key cell is present: a cell filled in by
    # squaring up would be sorted as None by the harness and as `missing` by the operator)
    c["presorted"] = draw(st.integers(0, 3)) == 0
    c["forms"] = [draw(st.sampled_from(["lists", "lists", "lists"] + catgen.FORMS)) for _ in range(2)]
    c["blowup"] = scale.derive(c, odds=25, sizes=[130, 300, 1030, 1100], wide=False)
    c["blowside"] = draw(st.integers(0, 1))
    c["big_buffersize"] = draw(st.sampled_from([None, 1000, 7, "n/300", "n/130", "n/2"]))
    # self-join: ONE table object is both inputs, joined on two different fields of it (boss/id style)
    if len(lh) >= 2 and draw(st.integers(0, 5)) == 0:
        c["selfjoin"] = True
        c["right"] = c["left"]
        for k in ("key", "lkey", "rkey"):
            c.pop(k, None)
        c["keyform"] = "self"
        c["lkey"], c["rkey"] = lh[0], lh[1]
    return c


def check_join(case, ctx):
    if case.get("blowup") and not case.get("selfjoin"):
        # at scale: ONE side blown up (rows repeated, or one row a thousand times and the rest after it), the other kept to
        # a few rows so that the result stays linear; chunk sizes that give a few hundred chunk files
        b = dict(case["blowup"], wide=0)
        side = case.get("blowside", 0)
        big = scale.apply(case["left" if side == 0 else "right"], b)
        small = [list(r) for r in case["right" if side == 0 else "left"][:5]]
        nb = len(big) - 1
        bs = case.get("big_buffersize")
        bs = bs if not isinstance(bs, str) else max(1, nb // int(bs.split("/")[1]))
        case = dict(case, left=big if side == 0 else small, right=small if side == 0 else big, buffersize=bs,
                    upstream=["none", "none"], presorted=False, forms=["lists", "lists"])
        scale.label(ctx, b)
    fn, L, Rt = case["fn"], case["left"], case["right"]
    kind = KINDS[fn]
    kw = {k: case[k] for k in ("key", "lkey", "rkey", "missing", "lprefix", "rprefix") if k in case}
    for pk_ in ("lprefix", "rprefix"):
        if kw.get(pk_, 0) is None:
            kw.pop(pk_)
    refkw = dict(kw)
    if case.get("buffersize") is not None:
        kw["buffersize"] = case["buffersize"]
        kw["tempdir"] = ctx.tmpdir()
    ups = case.get("upstream") or ["none", "none"]
    lki, rki = RJ._keys(L, Rt, refkw.get("key"), refkw.get("lkey"), refkw.get("rkey"))
    if not lki:
        ups = ["none", "none"]
    if ups[0] != "none":
        L = [list(r) for r in R.ref_sort(L, tuple(lki), ups[0] == "desc")]
    if ups[1] != "none":
        Rt = [list(r) for r in R.ref_sort(Rt, tuple(rki), ups[1] == "desc")]
    hdr, exp, lk = RJ.ref_join(L, Rt, kind, squareup=(kind != "anti"), **refkw)
    # non-triviality
    sqm = refkw.get("missing")
    lkeys = [R.keytuple(r, lk) for r in R.square(L, sqm)[1:]]
    _, rkidx = RJ._keys(R.square(L, sqm), R.square(Rt, sqm), refkw.get("key"), refkw.get("lkey"), refkw.get("rkey"))
    rkeys = [R.keytuple(r, rkidx) for r in R.square(Rt, sqm)[1:]]
    matched = any(RJ.keyeq(a, b) for a in lkeys for b in rkeys)
    unmatched = any(not any(RJ.keyeq(a, b) for b in rkeys) for a in lkeys) or any(not any(RJ.keyeq(a, b) for a in lkeys) for b in rkeys)
    none_vs_empty = (not rkeys and any(None in k for k in lkeys)) or (not lkeys and any(None in k for k in rkeys))
    ctx.nontrivial((lkeys and rkeys and matched and unmatched) or none_vs_empty)
    ctx.label("fn:" + fn, "keyform:" + case["keyform"], "left-empty" if not lkeys else "left-rows",
              "right-empty" if not rkeys else "right-rows", "none-vs-empty" if none_vs_empty else "regular")
    forms = case.get("forms") or ["lists", "lists"]
    Ls, Rs = catgen.shape(codec.snapshot(case["left"]), forms[0]), catgen.shape(codec.snapshot(case["right"]), forms[1])
    if forms != ["lists", "lists"]:
        ctx.label("container-forms")
    if case.get("selfjoin"):
        Rs = Ls
        ctx.label("selfjoin")
    lsp = refkw.get("key", refkw.get("lkey")) if ups[0] == "asc-spelled" else None
    rsp = refkw.get("key", refkw.get("rkey")) if ups[1] == "asc-spelled" else None
    if ups[0] != "none":
        Ls = etl.sort(Ls, tuple(lki) if lsp is None else lsp, reverse=ups[0] == "desc")
    if ups[1] != "none":
        Rs = etl.sort(Rs, tuple(rki) if rsp is None else rsp, reverse=ups[1] == "desc")
    if ups != ["none", "none"]:
        ctx.label("upstream-sortview")
    if (case.get("presorted") and ups == ["none", "none"] and not case.get("selfjoin") and lki
            and all(len(r) > max(lki) for r in case["left"][1:]) and all(len(r) > max(rki) for r in case["right"][1:])):
        Ls = catgen.shape([list(r) for r in R.ref_sort(case["left"], tuple(lki))], forms[0])
        Rs = catgen.shape([list(r) for r in R.ref_sort(case["right"], tuple(rki))], forms[1])
        kw = {k: v for k, v in kw.items() if k not in ("buffersize", "tempdir")}
        kw["presorted"] = True
        ctx.label("presorted")
    try:
        view = getattr(etl, fn)(Ls, Rs, **kw)
        got = [tuple(r) for r in view]
        again = [tuple(r) for r in view]
    except Exception as ex:
        return exc_fail(fn, ex)
    if again != got:
        return Fail(fn + "/second-pass-differs", "second pass gave %r, first pass %r" % (again, got))
    if not got or got[0] != hdr:
        return Fail(fn + "/header", "got %r expected %r" % (got[:1], hdr))
    if not R.same_multiset(got[1:], exp):
        return Fail(fn + "/rows", "%s(%r, %r, %r) gave %r, reference %r" % (fn, L, Rt, kw, got[1:], exp))
    keys = [R.keytuple(r, lk) for r in got[1:]]
    if not R.is_sorted_seq(keys):
        return Fail(fn + "/key-order", "output keys not ascending: %r" % (keys,))
    if sorted(map(codec.dumps, got[1:])) != sorted(map(codec.dumps, exp)):
        # == is not enough where 1, 1.0 and True are keys: a matched row carries the LEFT table's cells followed by the right
        # table's non-key cells; an unmatched right row its own key
        return Fail(fn + "/cell-origin", "%s(%r, %r, %r) gave %r, the cells should be %r" % (fn, L, Rt, kw, got[1:], exp))
    return None


@st.composite
def cross_case(draw, tier):
    n = draw(st.sampled_from([2, 3, 2, 1]))
    tables = []
    for i in range(n):
        hdr = draw(gen.header(min_n=1, max_n=3))
        tables.append(draw(gen.table(hdr, [st.one_of(gen.keyish, st.integers(0, 3))] * len(hdr), max_rows=3, ragged=draw(st.booleans()))))
    return {"tables": tables, "prefix": draw(st.booleans()), "missing": draw(st.sampled_from([None, "M", None, "M", 0, "", False]))}


def check_cross(case, ctx):
    hdr, exp = RJ.ref_crossjoin(case["tables"], prefix=case["prefix"], missing=case["missing"])
    ctx.nontrivial(len(case["tables"]) >= 2 and all(len(t) > 1 for t in case["tables"]))
    ctx.label("tables:%d" % len(case["tables"]))
    try:
        got = [tuple(r) for r in etl.crossjoin(*codec.snapshot(case["tables"]), prefix=case["prefix"], missing=case["missing"])]
    except Exception as ex:
        return exc_fail("crossjoin", ex)
    if not got or got[0] != hdr:
        return Fail("crossjoin/header", "got %r expected %r" % (got[:1], hdr))
    if got[1:] != exp:
        return Fail("crossjoin/rows", "got %r expected %r" % (got[1:], exp))
    return None


SUBS = [
    Sub("joins", check_join, strategy=join_case, quick=12000, thorough=300000),
    Sub("crossjoin", check_cross, strategy=cross_case, quick=1500, thorough=20000),
]
KNOWN = {}

# second use of one view object after its sources were edited (shared sub-check, see pv/reuse.py)
from pv import reuse  # noqa: E402
SUBS.append(reuse.sub(ID))
RULE += reuse.RULE

# field names that are not plain str (shared sub-check, see pv/names.py)
from pv import names  # noqa: E402
SUBS.append(names.sub(ID))
RULE += names.RULE

# inputs handed in through neutral petl views (shared sub-check, see pv/upstream.py)
from pv import upstream  # noqa: E402
SUBS.append(upstream.sub(ID))
RULE += upstream.RULE

# the method interface reaches the same functions (shared exhaustive sub-check, see pv/fluent.py)
from pv import fluent  # noqa: E402
SUBS.append(fluent.sub(ID))
RULE += fluent.RULE

# cases at scale (see pv/scale.py)
RULE += scale.RULE
