"""C07 - hash joins and lookups agree with the sort-merge joins."""
import petl as etl
from petl.errors import DuplicateKeyError
from hypothesis import strategies as st

from pv import gen, codec
from pv import scale
from pv.probes import BOOM_KINDS
from pv.core import Sub, Fail, exc_fail
from pv.ref import base as R, joins as RJ

ID = "C07"
LEVEL = "exploration"
RULE = ("Sub 'hashjoins': table pairs as in C06 with hashable key cells (rectangular for hashantijoin), cache on/off, 1-3 "
        "passes. Oracles: (1) differential: same header and row multiset as the corresponding merge join; (2) the "
        "nested-loop reference (so a defect shared by both implementations cannot hide); (3) exact sequence: rows follow "
        "the streamed side's table order with partners in the other table's order; (4) every pass equals the first under "
        "both cache settings. Sub 'lookups': lookup/lookupone/dictlookup/dictlookupone/recordlookup/recordlookupone on "
        "rectangular tables (dict forms: also rows ragged beyond the key, read as dicts() reads them) vs a plain-dict reference (key -> rows/values in table order; *one -> first; strict raises "
        "DuplicateKeyError iff a key repeats). Non-trivial = duplicate keys on the build "
        "side (hash joins: plus >=1 match), or a second pass with cache=True. Distinct by digest.")
ASSUMPTIONS = [
    "key cells are hashable scalars or tuples of them (the hash operators' domain)",
    "rectangular inputs for hashantijoin and for lookup/recordlookup; dictlookup reads short rows padded with None like dicts()",
]

PAIRS = {"hashjoin": ("join", "inner"), "hashleftjoin": ("leftjoin", "left"), "hashrightjoin": ("rightjoin", "right"),
         "hashantijoin": ("antijoin", "anti"), "hashlookupjoin": ("lookupjoin", "lookup")}
KEYCELL = st.one_of(gen.keyish, gen.keyish, gen.keyish, gen.hvalue)


@st.composite
def hj_case(draw, tier):
    maxrows = 6 if tier == "quick" else 14
    fn = draw(st.sampled_from(sorted(PAIRS)))
    keyform = draw(st.sampled_from(["key1", "key2", "lr1", "lr2", "natural1", "natural2", "key1-tuple", "index0"]))
    nk = 2 if keyform.endswith("2") else 1
    lk = ["k", "j"][:nk]
    rk = ["k2", "j2"][:nk] if keyform.startswith("lr") else list(lk)
    lextra = draw(st.lists(st.sampled_from(["a", "b"]), max_size=2, unique=True))
    # (a non-key field name may occur on both sides, unless the key is the natural one)
    rextra = draw(st.lists(st.sampled_from(["c", "d"] if keyform.startswith("natural") else ["c", "d", "a"]), max_size=2, unique=True))
    lh = draw(st.permutations(lk + lextra))
    rh = draw(st.permutations(rk + rextra))
    if keyform == "index0":
        lh = [lk[0]] + [f for f in lh if f != lk[0]]
        rh = [rk[0]] + [f for f in rh if f != rk[0]]
    p = draw(gen.twinned_pool(KEYCELL, 2, 4))
    kc = st.sampled_from(p)
    vc = st.one_of(st.sampled_from(p), st.integers(0, 3))
    ragged = fn != "hashantijoin" and draw(st.integers(0, 2)) == 0
    L = draw(gen.table(list(lh), [kc if f in lk else vc for f in lh], max_rows=0 if draw(st.integers(0, 9)) == 0 else maxrows,
                       ragged=ragged, extra=st.integers(0, 3)))
    Rt = draw(gen.table(list(rh), [kc if f in rk else vc for f in rh], max_rows=0 if draw(st.integers(0, 9)) == 0 else maxrows,
                        ragged=ragged, extra=st.integers(0, 3)))
    c = {"fn": fn, "left": L, "right": Rt, "keyform": keyform, "passes": draw(st.sampled_from([2, 1, 3]))}
    if keyform == "index0":
        c["key"] = 0
    elif keyform == "key1-tuple":
        c["key"] = (lk[0],)
    elif keyform.startswith("key"):
        c["key"] = lk[0] if nk == 1 else tuple(lk)
    elif keyform.startswith("lr"):
        c["lkey"] = lk[0] if nk == 1 else tuple(lk)
        c["rkey"] = rk[0] if nk == 1 else list(rk)
    if fn in ("hashleftjoin", "hashrightjoin", "hashlookupjoin") or (fn == "hashjoin" and draw(st.booleans())):
        # (hashjoin documents missing= as well: the value short rows are filled with; join has no such argument)
        c["missing"] = draw(st.sampled_from([None, None, "M", 0, ""]))
    if fn in ("hashjoin", "hashleftjoin", "hashrightjoin"):
        c["cache"] = draw(st.booleans())
    if fn != "hashantijoin" and draw(st.integers(0, 3)) == 0:
        # either prefix alone, or both
        which = draw(st.sampled_from(["both", "left", "right"]))
        if which != "right":
            c["lprefix"] = "l_"
        if which != "left":
            c["rprefix"] = "r_"
    # optionally the first pass hits a transient fault while the build side is being read
    c["fail_first"] = draw(st.one_of(st.none(), st.none(), st.integers(0, 3)))
    c["fail_kind"] = draw(st.sampled_from(BOOM_KINDS))
    return c


def _ref_rightorder(L, Rt, kw):
    """hashrightjoin streams the right table: for each right row, its left partners in left order."""
    missing = kw.get("missing")
    Ls, Rs = R.square(L, missing), R.square(Rt, missing)
    lk, rk = RJ._keys(Ls, Rs, kw.get("key"), kw.get("lkey"), kw.get("rkey"))
    rv = [i for i in range(len(Rs[0])) if i not in rk]
    out = []
    for r in Rs[1:]:
        m = False
        for l in Ls[1:]:
            if RJ.keyeq(R.keytuple(l, lk), R.keytuple(r, rk)):
                m = True
                out.append(tuple(l) + tuple(r[i] for i in rv))
        if not m:
            o = [missing] * len(Ls[0])
            for a, b in zip(lk, rk):
                o[a] = r[b]
            out.append(tuple(o) + tuple(r[i] for i in rv))
    return out


def check_hj(case, ctx):
    if case.get("blowup") is None and "blowup" not in case:
        case = dict(case, blowup=scale.derive(case, odds=25, sizes=[130, 300, 1030, 2100], wide=False))
    if case.get("blowup"):
        # at scale: one side blown up (chosen from the digest as well), the other kept to a few rows
        b = case["blowup"]
        side = b["rows"] % 2
        big = scale.apply(case["left" if side == 0 else "right"], b)
        small = [list(r) for r in case["right" if side == 0 else "left"][:5]]
        case = dict(case, left=big if side == 0 else small, right=small if side == 0 else big)
        scale.label(ctx, b)
    fn, L, Rt = case["fn"], case["left"], case["right"]
    mfn, kind = PAIRS[fn]
    kw = {k: case[k] for k in ("key", "lkey", "rkey", "missing", "lprefix", "rprefix", "cache") if k in case}
    mkw = {k: v for k, v in kw.items() if k != "cache"}
    hdr, exp, lk = RJ.ref_join(L, Rt, kind, squareup=(kind != "anti"), **mkw)
    if fn == "hashrightjoin":
        exp_seq = _ref_rightorder(L, Rt, mkw)
    else:
        exp_seq = exp
    sqm = kw.get("missing")
    Ls, Rs = R.square(L, sqm), R.square(Rt, sqm)
    lki, rki = RJ._keys(Ls, Rs, kw.get("key"), kw.get("lkey"), kw.get("rkey"))
    build = Ls if fn == "hashrightjoin" else Rs
    bidx = lki if fn == "hashrightjoin" else rki
    bkeys = [R.keytuple(r, bidx) for r in build[1:]]
    dupbuild = len(set(bkeys)) < len(bkeys)
    matched = len(exp) > 0 and kind != "anti" and any(RJ.keyeq(R.keytuple(a, lki), R.keytuple(b, rki)) for a in Ls[1:] for b in Rs[1:])
    ctx.label("fn:" + fn, "keyform:" + case["keyform"], "passes:%d" % case["passes"], "cache:%s" % kw.get("cache", "n/a"))
    ctx.nontrivial((dupbuild and (matched or kind == "anti")) or (case["passes"] >= 2 and kw.get("cache") is True and len(exp) > 0))
    La, Ra = codec.snapshot(L), codec.snapshot(Rt)
    try:
        ff = case.get("fail_first")
        bside = La if fn == "hashrightjoin" else Ra
        if ff is not None and ff < len(bside) - 1:
            from pv.probes import Counting, Boom
            cb = Counting(bside)
            cb.fail_at = ff
            cb.fail_kind = case.get("fail_kind", "plain")
            view = getattr(etl, fn)(cb, Ra, **kw) if fn == "hashrightjoin" else getattr(etl, fn)(La, cb, **kw)
            try:
                list(iter(view))
                return Fail(fn + "/fault-swallowed", "build side raised at data row %d but the pass completed" % ff)
            except Boom:
                pass
            cb.fail_at = None
            ctx.label("retry-after-failed-pass")
        else:
            view = getattr(etl, fn)(La, Ra, **kw)
        outs = [[tuple(r) for r in view] for _ in range(case["passes"])]
    except Exception as ex:
        return exc_fail(fn, ex)
    got = outs[0]
    for p, o in enumerate(outs[1:], 1):
        if o != got:
            return Fail(fn + "/pass-differs", "pass %d gave %r, pass 0 gave %r" % (p, o, got))
    if not got or got[0] != hdr:
        return Fail(fn + "/header", "got %r expected %r" % (got[:1], hdr))
    if got[1:] != exp_seq:
        if not R.same_multiset(got[1:], exp):
            return Fail(fn + "/rows", "%s(%r, %r, %r) gave %r, reference %r" % (fn, L, Rt, kw, got[1:], exp))
        return Fail(fn + "/order", "%s(%r, %r, %r) gave %r, expected streamed order %r" % (fn, L, Rt, kw, got[1:], exp_seq))
    if not codec.strict_eq(got[1:], exp_seq):
        # == is not enough where 1, 1.0 and True are keys: a matched row carries the LEFT table's cells followed by the right
        # table's non-key cells (an unmatched right row its own key)
        return Fail(fn + "/cell-origin", "%s(%r, %r, %r) gave %r, the cells should be %r" % (fn, L, Rt, kw, got[1:], exp_seq))
    # differential against the merge join
    if fn == "hashjoin" and mkw.get("missing") is not None:
        # join() always squares up with None: comparable only when no row needed filling
        if any(len(r) < len(t[0]) for t in (L, Rt) for r in t[1:]):
            return None
    if fn == "hashjoin":
        mkw = {k: v for k, v in mkw.items() if k != "missing"}
    try:
        mg = [tuple(r) for r in getattr(etl, mfn)(codec.snapshot(L), codec.snapshot(Rt), **mkw)]
    except Exception as ex:
        return exc_fail(mfn, ex)
    if mg[0] != got[0] or not R.same_multiset(mg[1:], got[1:]):
        return Fail(fn + "/differs-from-" + mfn, "%s gave %r, %s gave %r" % (fn, got, mfn, mg))
    return None


# ---- lookups ---------------------------------------------------------------------------------------------
LOOKUPS = ["lookup", "lookupone", "dictlookup", "dictlookupone", "recordlookup", "recordlookupone"]


@st.composite
def lk_case(draw, tier):
    nf = draw(st.sampled_from([2, 3, 4]))
    hdr = ["k", "j", "a", "b"][:nf]
    p = draw(gen.twinned_pool(KEYCELL, 2, 4))
    cell = st.one_of(st.sampled_from(p), st.integers(0, 3))
    fn = draw(st.sampled_from(LOOKUPS))
    # the dict forms read rows the way dicts() does (short rows padded with None, long rows trimmed), so they also get rows
    # that are ragged beyond the key fields
    ragged = fn.startswith("dict") and draw(st.booleans())
    tbl = draw(gen.table(hdr, [st.sampled_from(p)] * min(2, nf) + [cell] * (nf - min(2, nf)), max_rows=7 if tier == "quick" else 14,
                         ragged=ragged, ragged_min=2, ragged_odds=2))
    key = draw(st.sampled_from(["k", ("k", "j"), 0, ("k",)]))
    c = {"fn": fn, "table": tbl, "key": key}
    if fn in ("lookup", "lookupone"):
        # (0: the first field given by its index - falsy, but a field selection all the same)
        c["value"] = draw(st.sampled_from([None, hdr[-1], (hdr[-1], "k"), 0, nf - 1]))
    if fn.endswith("one"):
        c["strict"] = draw(st.booleans())
    # the documented dictionary= argument (any dict-like object, e.g. a shelve): the lookup is loaded into it
    c["given_dict"] = draw(st.booleans())
    return c


class _PlainMapping(object):
    """A minimal dict-like object (like a shelve): only __contains__, __getitem__, __setitem__, items/keys."""

    def __init__(self):
        self._d = {}

    def __contains__(self, k):
        return k in self._d

    def __getitem__(self, k):
        import copy
        return copy.copy(self._d[k])   # like a shelve: a fresh object on every read

    def __setitem__(self, k, v):
        self._d[k] = v

    def items(self):
        return self._d.items()

    def keys(self):
        return self._d.keys()


def check_lk(case, ctx):
    if "blowup" not in case:
        case = dict(case, blowup=scale.derive(case, odds=25, sizes=[130, 300, 1030, 2100], wide=False))
    if case.get("blowup"):
        case = dict(case, table=scale.apply(case["table"], case["blowup"]))
        scale.label(ctx, case["blowup"])
    fn, tbl, key = case["fn"], case["table"], case["key"]
    hdr = tbl[0]
    ki = R.resolve(hdr, key)
    rows = [tuple(r) for r in tbl[1:]]
    keys = [R.keyof(r, ki) for r in rows]
    if fn.startswith("dict"):
        vals = [dict(zip(hdr, (r + (None,) * len(hdr))[:len(hdr)])) for r in rows]
        if any(len(r) != len(hdr) for r in rows):
            ctx.label("ragged-dict-rows")
    elif fn.startswith("record"):
        vals = rows
    else:
        v = case.get("value")
        if v is None:
            vals = rows
        else:
            vi = R.resolve(hdr, v)
            vals = [R.keyof(r, vi) for r in rows]
    exp = {}
    NODUP = object()
    first_dup = NODUP
    for k, v in zip(keys, vals):
        if k in exp and first_dup is NODUP:
            first_dup = k
        exp.setdefault(k, []).append(v)
    has_dup = first_dup is not NODUP
    one = fn.endswith("one")
    strict = case.get("strict", False)
    ctx.label("fn:" + fn, "strict" if strict else "lenient", "dup" if has_dup else "nodup")
    ctx.nontrivial(has_dup)
    kw = {}
    if "value" in case and case["value"] is not None:
        kw["value"] = case["value"]
    if one:
        kw["strict"] = strict
    given = None
    if case.get("given_dict"):
        given = _PlainMapping()
        kw["dictionary"] = given
    try:
        got = getattr(etl, fn)(codec.snapshot(tbl), key, **kw)
        if given is not None:
            if got is not given:
                return Fail(fn + "/dictionary-not-used", "the mapping passed as dictionary= was not the one returned")
            got = dict(given.items())
    except DuplicateKeyError as ex:
        if one and strict and has_dup:
            return None   # which key the exception names is not part of the statement
        return Fail(fn + "/unexpected-DuplicateKeyError", "raised %r but strict=%r, repeated key %r" % (ex, strict, first_dup))
    except Exception as ex:
        return exc_fail(fn, ex)
    if one and strict and has_dup:
        return Fail(fn + "/missing-DuplicateKeyError", "key %r repeats but strict=True did not raise" % (first_dup,))
    if list(got.keys()) != list(exp.keys()):
        if set(got.keys()) != set(exp.keys()):
            return Fail(fn + "/keys", "keys %r expected %r" % (list(got.keys()), list(exp.keys())))
    for k in exp:
        g = got[k]
        e = exp[k][0] if one else exp[k]
        if fn.startswith("record"):
            g = tuple(g) if one else [tuple(x) for x in g]
        if g != e:
            return Fail(fn + "/values", "key %r -> %r expected %r" % (k, g, e))
    if fn.startswith("record"):
        # records must support field access
        for k in exp:
            rec = got[k] if one else got[k][0]
            src = exp[k][0]
            for i, f in enumerate(hdr):
                if rec[f] != src[i]:
                    return Fail(fn + "/record-access", "record %r field %r" % (rec, f))
    return None


SUBS = [
    Sub("hashjoins", check_hj, strategy=hj_case, quick=10000, thorough=200000),
    Sub("lookups", check_lk, strategy=lk_case, quick=6000, thorough=80000),
]
KNOWN = {}

# second use of one view object after its sources were edited (shared sub-check, see pv/reuse.py)
from pv import reuse  # noqa: E402
SUBS.append(reuse.sub(ID))
RULE += reuse.RULE

# field names that are not plain str (shared sub-check, see pv/names.py)
from pv import names  # noqa: E402
SUBS.append(names.sub(ID))
RULE += names.RULE

# inputs handed in through neutral petl views (shared sub-check, see pv/upstream.py)
from pv import upstream  # noqa: E402
SUBS.append(upstream.sub(ID))
RULE += upstream.RULE

# the method interface reaches the same functions (shared exhaustive sub-check, see pv/fluent.py)
from pv import fluent  # noqa: E402
SUBS.append(fluent.sub(ID))
RULE += fluent.RULE

# cases at scale (see pv/scale.py)
RULE += scale.RULE
