"""C08 - set operations obey multiset algebra; hash variants agree."""
from collections import Counter
from fractions import Fraction

import petl as etl
from hypothesis import strategies as st

from pv import gen, codec
from pv import scale
from pv import catgen
from pv.core import Sub, Fail, exc_fail, two_iterators
from pv.ref import base as R, setops as RS

ID = "C08"
LEVEL = "exploration"
RULE = ("Hypothesis draws two rectangular tables over a small pool of hashable cells (None, mixed types, equal values of "
        "different numeric types), so rows repeat on both sides with different multiplicities; either side may be empty; "
        "strict on/off; for the record* forms b's columns are a permutation of a's. Oracle: collections.Counter arithmetic "
        "on row tuples: complement = a - b (strict: rows of a absent from b), intersection = a & b, diff = (b - a, a - b), "
        "record forms after aligning by name; compared as multisets (the statement claims no output order for the sort-based "
        "operators), the hash variants additionally as a sequence in a's order; law complement(a,b) + intersection(a,b) == a. Non-trivial = some row occurs on both sides with "
        "different multiplicities. Distinct by digest.")
ASSUMPTIONS = [
    "rows have the header's length (the statement's domain); cells are hashable",
    "b's header is ignored by complement/intersection (as documented); record forms need equal field sets",
]

OPS = ["complement", "intersection", "diff", "recordcomplement", "recorddiff", "hashcomplement", "hashintersection", "law"]
# values outside petl's own notion of "number" that nevertheless compare natively with numbers; none of them is == to any
# int, float or Decimal, so multiset algebra (the oracle here is order-free) is well defined whatever place the ordering
# gives them
EXOTIC = [Fraction(1, 3), Fraction(-2, 3), Fraction(7, 3)]
CELL = st.one_of(gen.keyish, gen.keyish, gen.hvalue, st.sampled_from(EXOTIC))


@st.composite
def case(draw, tier):
    maxrows = 6 if tier == "quick" else 14
    nf = draw(st.sampled_from([1, 2, 3, 4, 5]))
    hdr = ["a", "b", "c", "d", "e"][:nf]
    p = draw(gen.twinned_pool(CELL, 2, 3))
    cell = st.sampled_from(p)
    # draw rows from a small pool of rows so that whole rows repeat across the two tables
    rowpool = draw(st.lists(st.lists(cell, min_size=nf, max_size=nf), min_size=1, max_size=4))
    row = st.sampled_from(rowpool)
    a = [list(hdr)] + draw(st.lists(row, max_size=maxrows))
    b = [list(hdr)] + draw(st.lists(row, max_size=maxrows))
    op = draw(st.sampled_from(OPS))
    c = {"op": op, "a": a, "b": b, "strict": draw(st.booleans())}
    if op.startswith("record"):
        perm = draw(st.permutations(list(range(nf))))
        if nf >= 2 and draw(st.integers(0, 3)) == 0:
            # a repeated field name in both tables (as a rename / join upstream leaves it): fields are aligned by name,
            # occurrence by occurrence
            i, j = draw(st.permutations(list(range(nf))))[:2]
            a[0][i] = a[0][j]
            b[0][i] = b[0][j]
        c["b"] = [[r[i] for i in perm] for r in b]
    elif draw(st.booleans()):
        c["b"] = [["x", "y", "z", "u", "w"][:nf]] + [list(r) for r in b[1:]]
    # inputs that are themselves whole-row sort views, ascending or descending
    c["upstream"] = [draw(st.sampled_from(["none", "none", "none", "asc", "desc", "first", "first-name"])) for _ in range(2)]
    # read the result through two interleaved iterators over the one view (None: a single pass)
    c["lag"] = draw(st.sampled_from([None, None, 0, 1, 2]))
    # presorted=True on inputs the harness has sorted (whole rows, reference ordering); with different container forms on
    # the two sides a list row meets a tuple row in the merge
    c["presorted"] = op in ("complement", "intersection", "diff", "law") and draw(st.integers(0, 3)) == 0
    c["buffersize"] = draw(st.sampled_from([None, None, 1, 2, 3]))
    c["forms"] = [draw(st.sampled_from(["lists", "lists", "lists"] + catgen.FORMS)) for _ in range(2)]
    return c


class _Diverged(Exception):
    pass


_MODE = {"lag": None}


def _run(f, *args, **kw):
    view = f(*args, **kw)
    if _MODE["lag"] is None:
        return [tuple(r) for r in view]
    # two live iterators over the one view (the second `lag` rows behind): both must deliver the whole result
    ra, rb = two_iterators(view, lag=_MODE["lag"])
    if ra != rb:
        raise _Diverged("two interleaved iterators over one %s view gave %r and %r" % (f.__name__, ra, rb))
    return ra


def check(case, ctx):
    if "blowup" not in case:
        case = dict(case, blowup=scale.derive(case, odds=25, sizes=[130, 300, 600, 1030], wide=False))
    if case.get("blowup"):
        # at scale: both tables blown up the same way (whole rows keep repeating across the two), chunk sizes that give a
        # few hundred chunk files
        bl = case["blowup"]
        nb = bl["rows"]
        bs = (None, 1000, 7, max(1, nb // 300), max(1, nb // 130), max(1, nb // 2))[(nb + len(case["a"]) + len(case["b"])) % 6]
        case = dict(case, a=scale.apply(case["a"], bl), b=scale.apply(case["b"], dict(bl, rows=max(1, bl["rows"] - 7))),
                    buffersize=bs, upstream=["none", "none"], presorted=False, lag=None, forms=["lists", "lists"])
        scale.label(ctx, bl)
    op, a, b, strict = case["op"], case["a"], case["b"], case["strict"]
    forms = case.get("forms") or ["lists", "lists"]
    pre = bool(case.get("presorted")) and (case.get("upstream") or ["none", "none"]) == ["none", "none"]
    pk = {"presorted": True} if pre else ({"buffersize": case["buffersize"], "tempdir": ctx.tmpdir()} if case.get("buffersize") else {})
    if pre:
        ctx.label("presorted")
        A = catgen.shape([list(r) for r in R.ref_sort(a)], forms[0])
        B = catgen.shape([list(r) for r in R.ref_sort(b)], forms[1])
    else:
        A, B = catgen.shape(codec.snapshot(a), forms[0]), catgen.shape(codec.snapshot(b), forms[1])
    if forms != ["lists", "lists"]:
        ctx.label("container-forms")
    ups = case.get("upstream") or ["none", "none"]
    def _up(T, t, how):
        # a sort view as input: the whole row either way, or the first field only (given as index 0 or by name)
        if how in ("first", "first-name"):
            k = 0 if how == "first" else t[0][0]
            return etl.sort(T, k), [list(r) for r in R.ref_sort(t, 0)]
        return etl.sort(T, reverse=how == "desc"), [list(r) for r in R.ref_sort(t, None, how == "desc")]
    if ups[0] != "none":
        A, a = _up(A, a, ups[0])   # a's order, for the hash variants
    if ups[1] != "none":
        B = _up(B, b, ups[1])[0]
    if ups != ["none", "none"]:
        ctx.label("upstream-sortview")
    ba = RS.align(b, a[0]) if op.startswith("record") else b
    ca, cb = RS.multiset(a[1:]), RS.multiset(ba[1:])
    ctx.label("op:" + op, "strict" if strict else "lenient", "a-empty" if len(a) == 1 else "a-rows", "b-empty" if len(b) == 1 else "b-rows")
    ctx.nontrivial(any(r in cb and cb[r] != ca[r] for r in ca))

    def cmp(name, got, exp, seq=True, origin=None):
        origin = a if origin is None else origin
        hdr, rows = exp
        if not got or got[0] != tuple(hdr):
            return Fail(name + "/header", "got %r expected %r" % (got[:1], hdr))
        if RS.multiset(got[1:]) != RS.multiset(rows):
            return Fail(name + "/multiset", "%s(%r, %r, strict=%r) gave %r, reference %r" % (name, a, b, strict, got[1:], rows))
        # == is not enough where (1, 'x') and (1.0, 'x') are the same row: what comes out are rows of the FIRST table
        # (of b for diff's `added`), cell for cell
        src = Counter(codec.dumps(tuple(r)) for r in origin[1:])
        out = Counter(codec.dumps(tuple(r)) for r in got[1:])
        if out - src:
            return Fail(name + "/row-origin", "%s(%r, %r, strict=%r) gave %r: not (type-exact) rows of %r" % (name, a, b, strict, got[1:], origin[1:]))
        if seq and got[1:] != rows:
            return Fail(name + "/order", "%s(%r, %r, strict=%r) gave %r, reference order %r" % (name, a, b, strict, got[1:], rows))
        return None
    bk = {k: v for k, v in pk.items() if k != "presorted"}   # the record* forms have no presorted argument
    _MODE["lag"] = case.get("lag")
    if _MODE["lag"] is not None:
        ctx.label("two-iterators")
    try:
        if op == "complement":
            return cmp(op, _run(etl.complement, A, B, strict=strict, **pk), RS.ref_complement(a, b, strict), seq=False)
        if op == "intersection":
            return cmp(op, _run(etl.intersection, A, B, **pk), RS.ref_intersection(a, b), seq=False)
        if op == "hashcomplement":
            return cmp(op, _run(etl.hashcomplement, A, B, strict=strict), RS.ref_complement(a, b, strict, ordered=False))
        if op == "hashintersection":
            return cmp(op, _run(etl.hashintersection, A, B), RS.ref_intersection(a, b, ordered=False))
        if op == "recordcomplement":
            return cmp(op, _run(etl.recordcomplement, A, B, strict=strict, **bk), RS.ref_complement(a, ba, strict), seq=False)
        if op == "diff":
            added, subtracted = etl.diff(A, B, strict=strict, **pk)
            return (cmp("diff.added", [tuple(r) for r in added], RS.ref_complement(b, a, strict), seq=False, origin=b)
                    or cmp("diff.subtracted", [tuple(r) for r in subtracted], RS.ref_complement(a, b, strict), seq=False))
        if op == "recorddiff":
            added, subtracted = etl.recorddiff(A, B, strict=strict, **bk)
            ab = RS.align(a, b[0])
            return (cmp("recorddiff.added", [tuple(r) for r in added], RS.ref_complement(b, ab, strict), seq=False, origin=b)
                    or cmp("recorddiff.subtracted", [tuple(r) for r in subtracted], RS.ref_complement(a, ba, strict), seq=False))
        # law: complement + intersection reassemble a (non-strict), for both implementations
        for cf, inf in ((etl.complement, etl.intersection), (etl.hashcomplement, etl.hashintersection)):
            lk = pk if cf is etl.complement else {}
            c = _run(cf, A, B, **lk)
            i = _run(inf, A, B, **lk)
            if RS.multiset(c[1:]) + RS.multiset(i[1:]) != ca:
                return Fail("law/%s+%s" % (cf.__name__, inf.__name__), "complement %r + intersection %r != a %r" % (c[1:], i[1:], a[1:]))
        return None
    except _Diverged as ex:
        return Fail(op + "/iterators-diverge", str(ex))
    except Exception as ex:
        return exc_fail(op, ex)
    finally:
        _MODE["lag"] = None


SUBS = [Sub("setops", check, strategy=case, quick=12000, thorough=200000)]
KNOWN = {}

# second use of one view object after its sources were edited (shared sub-check, see pv/reuse.py)
from pv import reuse  # noqa: E402
SUBS.append(reuse.sub(ID))
RULE += reuse.RULE

# field names that are not plain str (shared sub-check, see pv/names.py)
from pv import names  # noqa: E402
SUBS.append(names.sub(ID))
RULE += names.RULE

# inputs handed in through neutral petl views (shared sub-check, see pv/upstream.py)
from pv import upstream  # noqa: E402
SUBS.append(upstream.sub(ID))
RULE += upstream.RULE

# the method interface reaches the same functions (shared exhaustive sub-check, see pv/fluent.py)
from pv import fluent  # noqa: E402
SUBS.append(fluent.sub(ID))
RULE += fluent.RULE

# cases at scale (see pv/scale.py)
RULE += scale.RULE
