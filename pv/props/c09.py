"""C09 - grouping and aggregation conserve rows: each row in exactly one group."""
import collections
import functools

import petl as etl
from hypothesis import strategies as st

from pv import gen, codec
from pv import scale
from pv.core import Sub, Fail, exc_fail
from pv.order import ref_cmp, ref_key
from pv.ref import base as R

ID = "C09"
LEVEL = "exploration"
RULE = ("Hypothesis draws a table (fields k, j, v, id; key cells from a small pool with None, mixed types, equal values of "
        "different numeric types; ragged rows where the operator pads; id = row number), a key (single by name/index, "
        "compound, 1-tuple, callable on reference-sorted input, None), an operator with one of its argument forms, "
        "buffersize and presorted (on reference-sorted input). Oracle: reference grouping (distinct keys under ==, ascending "
        "under the independent ordering, rows in input order). Recording aggregators (list of ids / rows) make the partition "
        "itself observable: the groups' id lists must be exactly the reference groups. Per operator: aggregate (callable, "
        "(field, fn), list/dict/OrderedDict of specs, value= single and multiple, key=None), rowreduce, rowgroupmap, fold, "
        "groupselectfirst/last (first/last of the group), groupselectmin/max (some member whose value is the group's "
        "min/max; one row per key), mergeduplicates/merge (key + per-field value set: value, missing or Conflict), "
        "groupcountdistinctvalues, valuecounts/valuecounter; conservation: group counts add up to nrows. Non-trivial = >=2 "
        "groups and one of size >=2. Sub 'dupfields': tables whose header repeats the aggregated field name: the simple, dict, "
        "OrderedDict and item-assignment forms of aggregate must aggregate the same column (which one is not claimed), and it "
        "must be one of the columns of that name (non-trivial = the columns differ). Distinct by digest.")
ASSUMPTIONS = [
    "mergeduplicates/merge: key by field name(s), hashable value cells (documented examples); rectangular rows",
    "callable keys only with presorted=True (petl cannot sort by a callable)",
    "groupselectmin/max: which of several minimal rows is returned is unspecified",
]

KEYCELL = st.one_of(gen.keyish, gen.keyish, gen.hvalue)
OPS = ["agg_len", "agg_list", "agg_multi", "agg_none", "rowreduce", "rowgroupmap", "fold", "first", "last", "min", "max",
       "mergeduplicates", "merge", "gcdv", "valuecounts"]
H = ["k", "j", "v", "id"]


@st.composite
def case(draw, tier):
    maxrows = 7 if tier == "quick" else 16
    op = draw(st.sampled_from(OPS))
    p = draw(gen.twinned_pool(KEYCELL, 2, 4))
    kc = st.sampled_from(p)
    vc = st.one_of(st.integers(0, 3), st.none(), st.sampled_from(p))
    rect_only = op in ("mergeduplicates", "merge", "gcdv")
    ragged = (not rect_only) and draw(st.integers(0, 2)) == 0
    tbl = draw(gen.table(H, [kc, kc, vc, None], max_rows=maxrows, ragged=ragged, id_col=3, extra=st.integers(0, 3)))
    keyforms = ["k", 0, ("k", "j"), ["j", "k"], ("k",)]
    if op in ("mergeduplicates", "merge"):
        keyforms = ["k", ("k", "j"), ("k",), ("j", "k"), ["j", "k"]]
    if op in ("agg_len", "agg_list", "agg_multi", "rowreduce", "fold"):
        keyforms = keyforms + ["callable"]
    if op == "gcdv":
        keyforms = ["k", 0, "j"]  # documented for one key field
    key = draw(st.sampled_from(keyforms))
    c = {"op": op, "table": tbl, "key": key, "buffersize": draw(gen.buffersizes(len(tbl) - 1)),
         "presorted": key == "callable" or draw(st.integers(0, 3)) == 0,
         # the input may itself be a petl view sorted by the first key field (a stable pre-sort keeps the groups' row order)
         "upstream": draw(st.sampled_from(["none", "none", "none", "sortfirst", "sortfirst-rev", "wrap"]))}
    if op == "agg_list":
        c["value"] = draw(st.sampled_from(["id", ("id", "v"), None, 3]))
        c["field"] = draw(st.sampled_from([None, "agg"]))
    if op == "agg_multi":
        # setitem: fields added by item assignment; setitem-late: some of them only after the view has been iterated once
        c["form"] = draw(st.sampled_from(["ordereddict", "dict", "list", "setitem", "setitem-late"]))
    c["via_config"] = draw(st.integers(0, 3)) == 0
    if len(tbl) > 1 and op not in ("rowgroupmap_deep",):
        # (10001 rows: a single group can then pass 10000 rows)
        c["blowup"] = scale.derive(c, odds=40, sizes=[130, 300, 600, 1030, 10001, 10001] if op in ("agg_multi", "agg_none", "mergeduplicates", "agg_list", "agg_len") else [130, 300, 600, 1030], wide=False)
        c["big_buffersize"] = draw(st.sampled_from([None, 1000, 7, "n/300", "n/130", "n/2"]))
    if op == "agg_none":
        c["spec"] = draw(st.sampled_from(["len", "list", "multi"]))
    if op == "merge":
        c["table2"] = draw(gen.table(H, [kc, kc, vc, None], max_rows=maxrows, id_col=3))
    if op in ("mergeduplicates", "merge"):
        c["missing"] = draw(st.sampled_from([None, None, 0]))
    if op == "merge":
        c["reverse"] = draw(st.booleans())
        # the second table's fields: the same, permuted, a subset, or with a field the first table lacks
        c["hdr2"] = draw(st.sampled_from([None, None, ["j", "k", "w", "id"], ["k", "j", "id"], ["id", "v", "j", "k", "w"]]))
    if op == "valuecounts":
        c["key"] = draw(st.sampled_from(["k", ("k", "j")]))
        c["vc_missing"] = draw(st.sampled_from([None, None, "M", 0]))   # what a short row's absent cell counts as
    return c


class _PassDiffers(Exception):
    pass


def _rows2(view):
    """Rows of the first pass; a second pass over the same view must give the same rows (the sorted input may by then be
    served from a memory or file cache)."""
    a = [tuple(r) for r in view]
    b = [tuple(r) for r in view]
    if a != b:
        raise _PassDiffers("second pass gave %r, first pass %r" % (b, a))
    return a


def _cellv(r, i):
    return r[i] if i < len(r) else None


def _keyfn(r):
    return (_cellv(r, 0), "x")


def _groups(tbl, key):
    """reference groups: [(keyvalue, [rows])], key order, input order inside."""
    if key == "callable":
        rows = sorted((tuple(r) for r in tbl[1:]), key=lambda r: ref_key(_cellv(r, 0)))
        out = []
        for r in rows:
            k = _keyfn(r)
            if out and out[-1][0] == k:
                out[-1][1].append(r)
            else:
                out.append((k, [r]))
        return out
    return R.ref_groups(tbl, key)


MULTI = [("n", len), ("ids", ("id", list)), ("vs", "v"), ("pairs", (("id", "v"), list)), ("rows", list)]


def _multi_expected(rows):
    return (len(rows), [_cellv(r, 3) for r in rows], [_cellv(r, 2) for r in rows],
            [(_cellv(r, 3), _cellv(r, 2)) for r in rows], [tuple(r) for r in rows])


def _keycols(key, k):
    if key == "callable":
        return (k,)
    if isinstance(key, (list, tuple)) and len(key) > 1:
        return tuple(k)
    return (k,)


def _keyhdr(key):
    if key == "callable":
        return ("key",)
    if isinstance(key, (list, tuple)):
        return tuple(key) if len(key) > 1 else (key[0],)
    return (key,)


def check(case, ctx):
    """(the chunk size may come from petl.config.sort_buffersize instead of the argument: set while the view is built and
    while it is iterated, restored afterwards)"""
    import petl.config as cfg
    old = cfg.sort_buffersize
    try:
        if case.get("via_config") and case["buffersize"] is not None:
            cfg.sort_buffersize = case["buffersize"]
            ctx.label("buffersize-via-config")
        return _check(case, ctx)
    finally:
        cfg.sort_buffersize = old


def _check(case, ctx):
    if case.get("blowup"):
        # at scale: the rows repeated (id column renumbered); chunk sizes that give a few hundred chunk files
        b = case["blowup"]
        tbl = scale.apply(case["table"], b)
        for i, r in enumerate(tbl[1:]):
            if len(r) > 3:
                r[3] = i
        nb = len(tbl) - 1
        bs = case.get("big_buffersize")
        bs = bs if not isinstance(bs, str) else max(1, nb // int(bs.split("/")[1]))
        case = dict(case, table=tbl, buffersize=bs, upstream="none")
        if case["op"] == "merge":
            case["table2"] = case["table2"][:3]
        scale.label(ctx, b)
    op, tbl, key = case["op"], case["table"], case["key"]
    petl_key = _keyfn if key == "callable" else key
    groups = _groups(tbl, key) if op not in ("agg_none", "valuecounts") else []
    presorted = case["presorted"]
    src = codec.snapshot(tbl)
    if presorted and op not in ("agg_none", "valuecounts", "merge"):
        srt = R.ref_sort(tbl, 0 if key == "callable" else key)
        src = [list(r) for r in srt]
    up = case.get("upstream", "none")
    if up != "none" and not presorted and key != "callable" and op != "merge":
        f0 = 0 if op in ("agg_none", "valuecounts") else (key[0] if isinstance(key, (list, tuple)) else key)
        src = etl.sort(src, f0) if up == "sortfirst" else etl.sort(src, f0, reverse=True) if up == "sortfirst-rev" else etl.wrap(src)
        if op in ("agg_none",) and up != "wrap":
            up = "none"   # key-less aggregates list rows in input order: a pre-sort would change the expected order
            src = codec.snapshot(tbl)
        ctx.label("upstream:" + up)
    kw = {}
    if presorted and op not in ("agg_none", "valuecounts", "gcdv"):
        kw["presorted"] = True
    elif case["buffersize"] is not None and op not in ("agg_none", "valuecounts", "gcdv") and not case.get("via_config"):
        kw["buffersize"] = case["buffersize"]
    nrows = len(tbl) - 1
    ctx.label("op:" + op, "key:" + (key if key == "callable" else type(key).__name__), "presorted" if presorted else "sorted-by-petl")
    ctx.nontrivial(len(groups) >= 2 and any(len(g) >= 2 for _, g in groups) if groups else nrows >= 3)

    def fail(kind, got, exp):
        return Fail("%s/%s" % (op, kind), "%s on %r key=%r %r gave %r, reference %r" % (op, tbl, key, kw, got, exp))
    try:
        if op == "agg_len":
            got = _rows2(etl.aggregate(src, petl_key, len, **kw))
            exp = [_keyhdr(key) + ("value",)] + [_keycols(key, k) + (len(g),) for k, g in groups]
            if got != exp:
                return fail("rows", got, exp)
            if sum(r[-1] for r in got[1:]) != nrows:
                return fail("count-sum", got, nrows)
        elif op == "agg_list":
            value, field = case["value"], case["field"]
            akw = dict(kw)
            if field:
                akw["field"] = field
            got = _rows2(etl.aggregate(src, petl_key, list, value, **akw))

            def val(r):
                if value is None:
                    return tuple(r)
                if value == "id" or value == 3:
                    return _cellv(r, 3)
                return (_cellv(r, 3), _cellv(r, 2))
            exp = [_keyhdr(key) + (field or "value",)] + [_keycols(key, k) + ([val(r) for r in g],) for k, g in groups]
            got = [tuple(list(map(tuple, c)) if i == len(r) - 1 and value is None and n > 0 else c for i, c in enumerate(r)) for n, r in enumerate(got)]
            if got != exp:
                return fail("rows", got, exp)
        elif op == "agg_multi":
            form = case["form"]
            spec = collections.OrderedDict(MULTI) if form == "ordereddict" else dict(MULTI) if form == "dict" else None
            if form == "list":
                # the list form: flat tuples (outfield, aggfun) / (outfield, srcfield) / (outfield, srcfield, aggfun)
                spec = [(n_,) + (sp_ if isinstance(sp_, tuple) else (sp_,)) for n_, sp_ in MULTI]
            if form in ("setitem", "setitem-late"):
                agg = etl.aggregate(src, petl_key, **kw)
                for i, (n_, sp_) in enumerate(MULTI):
                    if form == "setitem-late" and i == len(MULTI) - 1:
                        _rows2(agg)   # the view is used before its last output field is added
                    agg[n_] = sp_
                got = _rows2(agg)
            else:
                got = _rows2(etl.aggregate(src, petl_key, spec, **kw))
            exp = [_keyhdr(key) + tuple(n for n, _ in MULTI)] + [_keycols(key, k) + _multi_expected(g) for k, g in groups]
            got = [r[:-1] + ([tuple(x) for x in r[-1]],) if n > 0 else r for n, r in enumerate(got)]
            if got != exp:
                return fail("rows", got, exp)
        elif op == "agg_none":
            rows = [tuple(r) for r in tbl[1:]]
            spec = case["spec"]
            if spec == "len":
                got = _rows2(etl.aggregate(src, None, len))
                exp = [("value",), (len(rows),)]
            elif spec == "list":
                got = _rows2(etl.aggregate(src, None, list, "id"))
                exp = [("value",), ([_cellv(r, 3) for r in rows],)]
            else:
                got = _rows2(etl.aggregate(src, None, collections.OrderedDict(MULTI)))
                got = [r[:-1] + ([tuple(x) for x in r[-1]],) if n > 0 else r for n, r in enumerate(got)]
                exp = [tuple(n for n, _ in MULTI)] + ([_multi_expected(rows)] if rows else [])
            if got != exp:
                return fail("rows", got, exp)
        elif op == "rowreduce":
            got = _rows2(etl.rowreduce(src, petl_key, lambda k, rows: [k, [r["id"] for r in rows]], header=["key", "ids"], **kw))
            exp = [("key", "ids")] + [(k, [_cellv(r, 3) for r in g]) for k, g in groups]
            if got != exp:
                return fail("rows", got, exp)
        elif op == "rowgroupmap":
            got = _rows2(etl.rowgroupmap(src, petl_key, lambda k, rows: [[k, r["id"], i] for i, r in enumerate(rows)], header=["key", "id", "i"], **kw))
            exp = [("key", "id", "i")] + [(k, _cellv(r, 3), i) for k, g in groups for i, r in enumerate(g)]
            if got != exp:
                return fail("rows", got, exp)
        elif op == "fold":
            f = lambda a, b: (a if isinstance(a, list) else [a]) + [b]  # noqa
            got = _rows2(etl.fold(src, petl_key, f, "id", **kw))
            exp = [("key", "value")] + [(k, functools.reduce(f, [_cellv(r, 3) for r in g])) for k, g in groups]
            if got != exp:
                return fail("rows", got, exp)
        elif op in ("first", "last"):
            fn = etl.groupselectfirst if op == "first" else etl.groupselectlast
            got = _rows2(fn(src, key, **kw))
            exp = [tuple(tbl[0])] + [(g[0] if op == "first" else g[-1]) for k, g in groups]
            if got != exp:
                return fail("rows", got, exp)
        elif op in ("min", "max"):
            fn = etl.groupselectmin if op == "min" else etl.groupselectmax
            got = _rows2(fn(src, key, "v", **kw))
            if got[:1] != [tuple(tbl[0])]:
                return fail("header", got[:1], tbl[0])
            if len(got) - 1 != len(groups):
                return fail("one-row-per-group", got[1:], [k for k, _ in groups])
            for row, (k, g) in zip(got[1:], groups):
                if row not in g:
                    return fail("not-a-member", row, g)
                vals = [_cellv(r, 2) for r in g]
                sign = 1 if op == "min" else -1
                if any(sign * ref_cmp(_cellv(row, 2), v) > 0 for v in vals):
                    return fail("not-extreme", row, g)
        elif op in ("mergeduplicates", "merge"):
            missing = case["missing"]
            if op == "merge":
                t2 = case["table2"]
                mkw = {"reverse": True} if case.get("reverse") else {}
                if case["buffersize"] is not None:
                    mkw["buffersize"] = case["buffersize"]
                U = list(H)
                if case.get("hdr2"):
                    h2 = case["hdr2"]
                    t2 = [list(h2)] + [[r[H.index(f)] if f in H else r[2] for f in h2] for r in t2[1:]]
                    U = list(H) + [f for f in h2 if f not in H]
                    ctx.label("merge:headers-differ")
                got = _rows2(etl.merge(src, codec.snapshot(t2), key=key, missing=missing, **mkw))
                # the tables are brought to the union of their fields (first table's fields first), absent cells = `missing`
                allrows = [U] + [list(r) + [missing] * (len(U) - len(H)) for r in tbl[1:]] + \
                          [[r[list(t2[0]).index(f)] if f in t2[0] else missing for f in U] for r in t2[1:]]
                groups = R.ref_groups(allrows, key)
                if case.get("reverse"):
                    groups = groups[::-1]   # descending key order; each group still holds all rows of its key
                # merge hands `missing` to mergesort (fill value for absent fields); the merging of
                # duplicates itself uses its default missing=None, as documented
                missing = None
            else:
                got = _rows2(etl.mergeduplicates(src, key, missing=missing, **kw))
            U = U if op == "merge" else list(H)
            knames = [key] if isinstance(key, str) else list(key)
            vidx = [i for i, f in enumerate(U) if f not in knames]
            exp = [tuple(knames) + tuple(U[i] for i in vidx)]
            for k, g in groups:
                row = list(_keycols(key, k))
                for i in vidx:
                    vals = set(r[i] for r in g if len(r) > i and r[i] != missing)
                    row.append(missing if not vals else vals.pop() if len(vals) == 1 else frozenset(vals))
                exp.append(tuple(row))
            if got != exp:
                return fail("rows", got, exp)
            for r in got[1:]:
                for c in r:
                    if isinstance(c, frozenset) and not isinstance(c, etl.Conflict):
                        return fail("conflict-type", r, "Conflict")
        elif op == "gcdv":
            got = _rows2(etl.groupcountdistinctvalues(src, key, "v"))
            exp = [_keyhdr(key) + ("value",)]
            for k, g in groups:
                distinct = []
                for r in g:
                    if not any(ref_cmp(r[2], d) == 0 and r[2] == d for d in distinct):
                        distinct.append(r[2])
                exp.append(_keycols(key, k) + (len(distinct),))
            if got != exp:
                return fail("rows", got, exp)
        else:  # valuecounts / valuecounter
            fields = [key] if isinstance(key, str) else list(key)
            idx = [H.index(f) for f in fields]
            vm = case.get("vc_missing")
            mkw = {} if vm is None else {"missing": vm}
            vals = [R.keyof(r, idx, vm) for r in tbl[1:]]
            cnt = collections.Counter(vals)
            got = _rows2(etl.valuecounts(src, *fields, **mkw))
            if got[:1] != [tuple(fields) + ("count", "frequency")]:
                return fail("header", got[:1], fields)
            gotc = {}
            for r in got[1:]:
                k = r[0] if len(fields) == 1 else tuple(r[:len(fields)])
                if k in gotc:
                    return fail("value-twice", got, k)
                gotc[k] = r[-2]
                if nrows and abs(r[-1] - float(r[-2]) / nrows) > 1e-12:
                    return fail("frequency", r, nrows)
            if gotc != dict(cnt):
                return fail("counts", gotc, dict(cnt))
            if sum(gotc.values()) != nrows:
                return fail("count-sum", gotc, nrows)
            vc = etl.valuecounter(codec.snapshot(tbl), *fields, **mkw)
            if dict(vc) != dict(cnt):
                return fail("valuecounter", dict(vc), dict(cnt))
    except _PassDiffers as ex:
        return Fail(op + "/second-pass-differs", "%s on %r key=%r %r: %s" % (op, tbl, key, kw, ex))
    except Exception as ex:
        return exc_fail(op, ex)
    return None


# ---- repeated field names: every way of naming the aggregated field must pick the same column -------------------------
@st.composite
def dup_case(draw, tier):
    hdr = draw(st.sampled_from([["k", "v", "w", "v"], ["v", "k", "v"], ["k", "v", "v", "w"], ["k", "w", "v", "w", "v"]]))
    p = draw(gen.twinned_pool(KEYCELL, 2, 3))
    tbl = draw(gen.table(hdr, [st.sampled_from(p) if f == "k" else st.integers(0, 5) for f in hdr], max_rows=6, min_rows=1))
    return {"table": tbl, "fn": draw(st.sampled_from(["list", "sum", "min"])),
            "buffersize": draw(st.sampled_from([None, 1, 2])), "keynone": draw(st.integers(0, 3)) == 0}


def check_dup(case, ctx):
    tbl = case["table"]
    fn = {"list": list, "sum": sum, "min": min}[case["fn"]]
    key = None if case["keynone"] else "k"
    kw = {} if (case["buffersize"] is None or key is None) else {"buffersize": case["buffersize"]}
    hdr = tbl[0]
    vcols = [i for i, f in enumerate(hdr) if f == "v"]
    ctx.label("fn:" + case["fn"], "key:none" if key is None else "key:k")
    ctx.nontrivial(any(len({r[i] for i in vcols}) > 1 for r in tbl[1:]))
    forms = collections.OrderedDict()
    try:
        forms["simple"] = [tuple(r) for r in etl.aggregate(codec.snapshot(tbl), key, fn, "v", **kw)]
        forms["dict"] = [tuple(r) for r in etl.aggregate(codec.snapshot(tbl), key, {"value": ("v", fn)}, **kw)]
        forms["ordereddict"] = [tuple(r) for r in etl.aggregate(codec.snapshot(tbl), key, collections.OrderedDict([("value", ("v", fn))]), **kw)]
        agg = etl.aggregate(codec.snapshot(tbl), key, **kw)
        agg["value"] = "v", fn
        forms["setitem"] = [tuple(r) for r in agg]
    except Exception as ex:
        return exc_fail("dupfields", ex)
    base = forms["simple"]
    for name, got in forms.items():
        if got[1:] != base[1:]:
            return Fail("dupfields/forms-disagree", "aggregate(%r, %r, %s of 'v'): the %s form gave %r, the simple form %r" % (tbl, key, case["fn"], name, got, base))
    # ... and it is one of the columns named 'v', the same one for every group
    ok = False
    for i in vcols:
        if key is None:
            exp = [(fn([r[i] for r in tbl[1:]]),)]
        else:
            groups = _groups([["k", "x"]] + [[r[hdr.index("k")], r[i]] for r in tbl[1:]], "k")
            exp = [(k, fn([r[1] for r in g])) for k, g in groups]
        if base[1:] == exp:
            ok = True
    if not ok:
        return Fail("dupfields/not-a-column", "aggregate(%r, %r, %s of 'v') gave %r, which is the aggregate of neither column named 'v'" % (tbl, key, case["fn"], base))
    return None


SUBS = [Sub("grouping", check, strategy=case, quick=16000, thorough=250000),
        Sub("dupfields", check_dup, strategy=dup_case, quick=1500, thorough=20000)]
KNOWN = {}

# second use of one view object after its sources were edited (shared sub-check, see pv/reuse.py)
from pv import reuse  # noqa: E402
SUBS.append(reuse.sub(ID))
RULE += reuse.RULE

# field names that are not plain str (shared sub-check, see pv/names.py)
from pv import names  # noqa: E402
SUBS.append(names.sub(ID))
RULE += names.RULE

# inputs handed in through neutral petl views (shared sub-check, see pv/upstream.py)
from pv import upstream  # noqa: E402
SUBS.append(upstream.sub(ID))
RULE += upstream.RULE

# the method interface reaches the same functions (shared exhaustive sub-check, see pv/fluent.py)
from pv import fluent  # noqa: E402
SUBS.append(fluent.sub(ID))
RULE += fluent.RULE

# cases at scale (see pv/scale.py)
RULE += scale.RULE
