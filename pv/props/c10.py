"""C10 - duplicates/unique/distinct/conflicts partition rows by key multiplicity."""
from collections import Counter

import petl as etl
from hypothesis import strategies as st

from pv import gen, codec
from pv import scale
from pv import catgen
from pv.core import Sub, Fail, exc_fail
from pv.order import ref_cmp
from pv.ref import base as R

ID = "C10"
LEVEL = "exploration"
RULE = ("Hypothesis draws a rectangular table over a small pool of hashable cells (None, mixed types, equal values of "
        "different numeric types; header-only and single-row tables included), a key (None / single by name or index / "
        "compound / 1-tuple), optional count field and buffersize. Oracle: key multiplicities from a Counter: duplicates = "
        "rows with multiplicity > 1 and unique = rows with multiplicity 1 (compared as multisets: the statement is about "
        "membership, not output order) and together a partition of the input; distinct = the first row (in sorted order, i.e. "
        "input order among equal keys) of every key, count column = multiplicity, counts sum to nrows; isunique <=> duplicates is empty; conflicts: every row "
        "returned is an input row of a key group of size >= 2 containing two rows that differ on a considered field where "
        "neither value is `missing` (soundness), returned rows keep multiplicity, and a group without any missing value "
        "that disagrees contributes >= 2 rows. Non-trivial = some key occurs more than once and some key exactly once. "
        "Distinct by digest.")
ASSUMPTIONS = [
    "rectangular tables with hashable cells (the statement's domain)",
    "conflicts: which rows of a disagreeing group with missing values are returned is not specified beyond soundness",
]

CELL = st.one_of(gen.keyish, gen.keyish, gen.hvalue)
OPS = ["duplicates", "unique", "distinct", "distinct_count", "conflicts", "isunique", "partition"]


@st.composite
def case(draw, tier):
    maxrows = 7 if tier == "quick" else 16
    nf = draw(st.sampled_from([2, 3, 1]))
    hdr = ["k", "j", "a"][:nf]
    p = draw(gen.twinned_pool(CELL, 2, 3))
    cell = st.sampled_from(p)
    tbl = draw(gen.table(hdr, [cell] * nf, max_rows=maxrows))
    op = draw(st.sampled_from(OPS))
    keys = [None, "k", 0, ("k",)] + ([("k", "j"), ["j", "k"]] if nf >= 2 else [])
    if op == "conflicts":
        keys = keys[1:]
    if op == "isunique":
        keys = keys[1:]
    c = {"op": op, "table": tbl, "key": draw(st.sampled_from(keys)),
         "buffersize": draw(gen.buffersizes(len(tbl) - 1)),
         # the input may itself be a petl view: already sorted by the first key field (either direction), wrapped, cached
         "upstream": draw(st.sampled_from(["none", "none", "sortfirst", "sortfirst-rev", "wrap", "sortall"])),
         # presorted=True on an input the harness has sorted by the key (a list of lists: the caller's own header and rows
         # then reach the operator directly)
         "presorted": draw(st.integers(0, 3)) == 0,
         "form": draw(st.sampled_from(["lists", "lists", "lists"] + catgen.FORMS))}
    if len(tbl) > 1:
        c["blowup"] = scale.derive(c, odds=30, sizes=[130, 300, 600, 1030], wide=False)
        c["big_buffersize"] = draw(st.sampled_from([None, 1000, 7, "n/300", "n/130", "n/2"]))
    if op == "conflicts":
        c["missing"] = draw(st.sampled_from([None, None] + p))
        # include= / exclude= as a single name, a list or a tuple of names
        c["fields"] = draw(st.sampled_from([None, ("exclude", hdr[-1]), ("include", hdr[-1]), ("include", list(hdr)),
                                            ("exclude", [hdr[-1]]), ("exclude", tuple(hdr[-2:])), ("include", tuple(hdr[:2])),
                                            ("include", [hdr[0]])]))
    return c


def _groups(tbl, key):
    hdr = tbl[0]
    idx = list(range(len(hdr))) if key is None else R.resolve(hdr, key)
    srt = R.ref_sort(tbl, key)
    return idx, srt


class _PassDiffers(Exception):
    pass


def _rows2(view):
    """Rows of the first pass; a second pass over the same view must give the same rows."""
    a = [tuple(r) for r in view]
    b = [tuple(r) for r in view]
    if a != b:
        raise _PassDiffers("second pass gave %r, first pass %r" % (b, a))
    return a


def check(case, ctx):
    if case.get("blowup"):
        # at scale: rows repeated / one row a thousand times and the others after it; a few hundred chunk files
        tbl = scale.apply(case["table"], case["blowup"])
        nb = len(tbl) - 1
        bs = case.get("big_buffersize")
        bs = bs if not isinstance(bs, str) else max(1, nb // int(bs.split("/")[1]))
        case = dict(case, table=tbl, buffersize=bs, upstream="none")
        scale.label(ctx, case["blowup"])
    op, tbl, key, bs = case["op"], case["table"], case["key"], case["buffersize"]
    hdr = tuple(tbl[0])
    up = case.get("upstream", "none")
    idx0 = list(range(len(hdr))) if key is None else R.resolve(hdr, key)
    f0 = idx0[0] if idx0 else 0
    # the effective input is what the upstream view yields (reference-sorted the same way)
    eff = tbl
    if up == "sortfirst":
        eff = [list(r) for r in R.ref_sort(tbl, f0)]
    elif up == "sortfirst-rev":
        eff = [list(r) for r in R.ref_sort(tbl, f0, True)]
    elif up == "sortall":
        eff = [list(r) for r in R.ref_sort(tbl)]
    idx, srt = _groups(eff, key)
    rows = srt[1:]
    kt = [R.keytuple(r, idx) for r in rows]
    mult = Counter(kt)
    ctx.label("op:" + op, "key:" + ("none" if key is None else type(key).__name__), "rows:%d" % min(len(rows), 3))
    ctx.nontrivial(any(v > 1 for v in mult.values()) and any(v == 1 for v in mult.values()))
    T = catgen.shape(codec.snapshot(tbl), case.get("form", "lists"))
    # the upstream sort names its key the way the operator's key spec does (same field name or index)
    k0 = f0 if key is None else (key[0] if isinstance(key, (list, tuple)) else key)
    if up == "sortfirst":
        T = etl.sort(T, k0)
    elif up == "sortfirst-rev":
        T = etl.sort(T, k0, reverse=True)
    elif up == "sortall":
        T = etl.sort(T)
    elif up == "wrap":
        T = etl.wrap(T)
    ctx.label("upstream:" + up)
    kw = {} if bs is None else {"buffersize": bs}
    if case.get("presorted") and up == "none" and op != "isunique":
        T = [list(r) for r in R.ref_sort(tbl, key)]
        kw = {"presorted": True}
        ctx.label("presorted")
    dup_exp = [r for r, k in zip(rows, kt) if mult[k] > 1]
    uniq_exp = [r for r, k in zip(rows, kt) if mult[k] == 1]
    try:
        if op == "duplicates":
            got = _rows2(etl.duplicates(T, key, **kw))
            if got[:1] != [hdr] or Counter(got[1:]) != Counter(dup_exp):
                return Fail("duplicates/rows", "duplicates(%r, %r) gave %r expected %r" % (tbl, key, got, dup_exp))
        elif op == "unique":
            got = _rows2(etl.unique(T, key, **kw))
            if got[:1] != [hdr] or Counter(got[1:]) != Counter(uniq_exp):
                return Fail("unique/rows", "unique(%r, %r) gave %r expected %r" % (tbl, key, got, uniq_exp))
        elif op == "partition":
            d = _rows2(etl.duplicates(T, key, **kw))[1:]
            u = _rows2(etl.unique(T, key, **kw))[1:]
            if Counter(d) + Counter(u) != Counter(rows):
                return Fail("partition/not-a-partition", "duplicates %r + unique %r != rows %r" % (d, u, rows))
            if set(R.keytuple(r, idx) for r in d) & set(R.keytuple(r, idx) for r in u):
                return Fail("partition/key-in-both", "a key occurs in both duplicates %r and unique %r" % (d, u))
        elif op in ("distinct", "distinct_count"):
            first, order = {}, []
            for r, k in zip(rows, kt):
                if k not in first:
                    first[k] = r
                    order.append(k)
            if op == "distinct":
                got = _rows2(etl.distinct(T, key, **kw))
                exp = [hdr] + [first[k] for k in order]
            else:
                got = _rows2(etl.distinct(T, key, count="n", **kw))
                exp = [hdr + ("n",)] + [first[k] + (mult[k],) for k in order]
                if sum(r[-1] for r in got[1:]) != len(rows):
                    return Fail("distinct/count-sum", "counts %r do not add up to %d rows" % ([r[-1] for r in got[1:]], len(rows)))
            if got[:1] != exp[:1] or Counter(got[1:]) != Counter(exp[1:]):
                return Fail(op + "/rows", "%s(%r, %r) gave %r expected %r" % (op, tbl, key, got, exp))
        elif op == "isunique":
            got = etl.isunique(T, key)
            d = _rows2(etl.duplicates(T, key))[1:]
            if bool(got) != (not dup_exp) or bool(got) != (not d):
                return Fail("isunique/verdict", "isunique(%r, %r)=%r, duplicates=%r, reference duplicates=%r" % (tbl, key, got, d, dup_exp))
        else:
            missing = case["missing"]
            fkw = {}
            considered = list(range(len(hdr)))
            if case["fields"]:
                how, val = case["fields"]
                fkw[how] = val
                names = list(val) if isinstance(val, (list, tuple)) else [val]
                considered = [i for i, f in enumerate(hdr) if (f in names) == (how == "include")]
            got = _rows2(etl.conflicts(T, key, missing=missing, **dict(kw, **fkw)))
            if got[:1] != [hdr]:
                return Fail("conflicts/header", "got %r" % (got[:1],))
            out = got[1:]
            if Counter(out) - Counter(rows):
                return Fail("conflicts/invented-row", "returned %r not all in input %r" % (out, rows))
            groups = {}
            for r, k in zip(rows, kt):
                groups.setdefault(k, []).append(r)

            def disagree(g, strict_missing):
                for i in range(len(g)):
                    for j in range(i + 1, len(g)):
                        for c in considered:
                            x, y = g[i][c], g[j][c]
                            if x != y and not (x == missing or y == missing):
                                return True
                return False
            for r in out:
                g = groups[R.keytuple(r, idx)]
                if len(g) < 2:
                    return Fail("conflicts/unique-key-row", "row %r has a unique key" % (r,))
                if not disagree(g, True):
                    return Fail("conflicts/no-disagreement", "row %r returned but its group %r does not disagree on a non-missing value (missing=%r, fields=%r)" % (r, g, missing, case["fields"]))
            outc = Counter(out)
            for k, g in groups.items():
                nomissing = all(not (g_[c] == missing) for g_ in g for c in considered)
                if len(g) >= 2 and nomissing and disagree(g, True):
                    n = sum(outc[r] for r in set(g))
                    if n < 2:
                        return Fail("conflicts/missed-group", "group %r disagrees without missing values but %d rows returned" % (g, n))
    except _PassDiffers as ex:
        return Fail(op + "/second-pass-differs", str(ex))
    except Exception as ex:
        return exc_fail(op, ex)
    return None


SUBS = [Sub("dedup", check, strategy=case, quick=14000, thorough=200000)]
def _known_twins(sub, case, fail):
    return sub == "seqkeys" and fail.bucket.endswith("-with-twin-between")


KNOWN = {"dedup-list-tuple-twins": _known_twins}

# ---- key cells that are unhashable or differ only in container type ([1, 2] vs (1, 2)) ---------------------------------
@st.composite
def seq_case(draw, tier):
    nf = draw(st.sampled_from([1, 2]))
    hdr = ["k", "a"][:nf]
    p = draw(st.lists(st.sampled_from([[], (), [1, 2], (1, 2), [[]], [()], ([],), 1, None, "a", [None], (None,)]), min_size=2, max_size=4))
    tbl = draw(gen.table(hdr, [st.sampled_from(p)] + [st.integers(0, 2)] * (nf - 1), max_rows=6))
    return {"table": tbl, "key": draw(st.sampled_from([None, "k", ("k",)] if nf == 1 else [None, "k", ("k", "a")])),
            "buffersize": draw(st.sampled_from([None, 1, 2]))}


def check_seq(case, ctx):
    tbl, key = case["table"], case["key"]
    hdr = tuple(tbl[0])
    idx = list(range(len(hdr))) if key is None else R.resolve(hdr, key)
    rows = [tuple(r) for r in tbl[1:]]
    keys = [tuple(r[i] for i in idx) for r in rows]           # compared with plain ==, as petl compares them
    mult = [sum(1 for k2 in keys if k2 == k) for k in keys]
    dup_exp = [r for r, m in zip(rows, mult) if m > 1]
    uniq_exp = [r for r, m in zip(rows, mult) if m == 1]
    classes = []
    for k in keys:
        if not any(k == c for c in classes):
            classes.append(k)
    ctx.nontrivial(len(rows) >= 2 and any(isinstance(c, (list, tuple)) for k in keys for c in k))
    kw = {} if case["buffersize"] is None else {"buffersize": case["buffersize"]}
    try:
        d = [tuple(r) for r in etl.duplicates(codec.snapshot(tbl), key, **kw)][1:]
        u = [tuple(r) for r in etl.unique(codec.snapshot(tbl), key, **kw)][1:]
        di = [tuple(r) for r in etl.distinct(codec.snapshot(tbl), key, **kw)][1:]
    except Exception as ex:
        return exc_fail("seqkeys", ex)
    # known finding dedup-list-tuple-twins: a repeated key is missed when a list/tuple twin of it (tie under the ordering,
    # not ==) is in the table as well, because the sort may put the twin between the repeats
    twins = any(m > 1 and any(k2 != k and ref_cmp(k2, k) == 0 for k2 in keys) for k, m in zip(keys, mult))
    sfx = "-with-twin-between" if twins else ""
    if not R.same_multiset(d, dup_exp):
        return Fail("seqkeys/duplicates" + sfx, "duplicates(%r, %r) gave %r, expected %r" % (tbl, key, d, dup_exp))
    if not R.same_multiset(u, uniq_exp):
        return Fail("seqkeys/unique" + sfx, "unique(%r, %r) gave %r, expected %r (duplicates %r)" % (tbl, key, u, uniq_exp, d))
    if len(di) != len(classes):
        return Fail("seqkeys/distinct" + sfx, "distinct(%r, %r) gave %d rows %r for %d distinct keys" % (tbl, key, len(di), di, len(classes)))
    return None


SUBS.append(Sub("seqkeys", check_seq, strategy=seq_case, quick=1500, thorough=20000))
RULE += (" Sub 'seqkeys': key cells that are lists / tuples / nested empties ([1, 2] vs (1, 2), [] vs ()), which tie under the ordering "
         "but are not ==: duplicates / unique partition the rows by == of the key, distinct keeps one row per ==-class (isunique hashes "
         "its keys and is left out).")

# second use of one view object after its sources were edited (shared sub-check, see pv/reuse.py)
from pv import reuse  # noqa: E402
SUBS.append(reuse.sub(ID))
RULE += reuse.RULE

# field names that are not plain str (shared sub-check, see pv/names.py)
from pv import names  # noqa: E402
SUBS.append(names.sub(ID))
RULE += names.RULE

# inputs handed in through neutral petl views (shared sub-check, see pv/upstream.py)
from pv import upstream  # noqa: E402
SUBS.append(upstream.sub(ID))
RULE += upstream.RULE

# the method interface reaches the same functions (shared exhaustive sub-check, see pv/fluent.py)
from pv import fluent  # noqa: E402
SUBS.append(fluent.sub(ID))
RULE += fluent.RULE

# cases at scale (see pv/scale.py)
RULE += scale.RULE
