"""C11 - execution-strategy arguments never change results; cache semantics."""
import petl as etl
import petl.config as cfg
from hypothesis import strategies as st

from pv import catalog, catgen, codec, gen
from pv import scale
from pv.core import Sub, Fail, exc_fail
from pv.probes import Counting, Boom, BOOM_KINDS
from pv.ref import base as R
from pv import reuse

ID = "C11"
LEVEL = "exploration"
RULE = ("Sub 'variants' (differential): Hypothesis draws a sort-backed catalogue entry (joins incl. unjoin, set operations "
        "incl. diff/recorddiff, dedup, reductions, pivot, mergesort, rowgroupmap), sources (optionally fed through an upstream "
        "streaming petl stage, so that row objects are whatever petl itself yields: tuples, lists, Records) and a strategy "
        "variant: buffersize in {1,2,n-1,n,n+1,2n+1} by argument or via petl.config.sort_buffersize, tempdir, cache, "
        "presorted=True on reference-sorted inputs; the header and row SEQUENCE of two passes must equal the default call's. "
        "Sub 'histories' (model-based): a generated history of edit(source)/full_pass/partial_pass(j) steps over one "
        "sort-backed view with fixed cache flag and buffersize over pull-counting mutable sources; cache=False: every pass "
        "equals a fresh default view over the sources' current contents; cache=True: after the first completed pass P every "
        "later pass yields P and pulls zero data rows. Non-trivial: variants - the variant changes the execution path (chunk "
        "files exist / presorted / config) and the output has >=2 data rows; histories - an edit lies between two full "
        "passes. Distinct by digest.")
ASSUMPTIONS = [
    "operators are exercised with the fixed valid arguments of pv/catalog.py",
    "before the first completed pass of a cache=True view, passes are only checked while no edit has happened (the statement is silent about replaying an abandoned pass)",
    "edits replace row objects, they never mutate a row object in place (aliasing a cached row is the caller's problem)",
    "presorted=True only on inputs sorted (stably, by the independent reference ordering) by the operator's key",
]

NAMES = catalog.names("sorted")
UPSTREAM = {
    "list": lambda t: t,
    "tuples": lambda t: [tuple(r) for r in t],
    "convert_where": lambda t: etl.convert(t, "s", lambda v: v, where=lambda r: True),
    "selectusingcontext": lambda t: etl.selectusingcontext(t, lambda p, c, n: True),
    "addfield_cut": lambda t: etl.cut(etl.addfield(t, "zz", 1), "k", "j", "v", "s"),
    "select": lambda t: etl.select(t, lambda r: True),
    "wrap": lambda t: etl.wrap(t),
    # data rows that are petl Record objects (what records() hands out), also made with a `missing` of their own: a short
    # Record answers an absent field with THAT value wherever the row object itself is asked
    # one table whose data rows alternate between lists and tuples (equal rows of different container type)
    "mixed_rows": lambda t: [t[0]] + [tuple(r) if i % 2 else list(r) for i, r in enumerate(t[1:])],
    "records": lambda t: [t[0]] + list(etl.records(t)),
    "records_missing": lambda t: [t[0]] + list(etl.records(t, missing="zzz")),
}


def variant_case(tier, shard=0, nshards=1):
    return _variant_case(tier, NAMES[shard::nshards] or NAMES)


variant_case.sharded = True


@st.composite
def _variant_case(draw, tier, names):
    name = draw(st.sampled_from(names))
    e = catalog.get(name)
    kinds = ["buffersize", "buffersize", "config", "tempdir", "nocache"] + (["presorted"] * 3 if e.has("presorted") else [])
    variant = draw(st.sampled_from(kinds))
    # presorted inputs are sorted by the harness on the raw key cells: rows may be ragged only beyond the key fields
    # (k, j are the first two), so that squaring up (padding with `missing`) cannot change a key after the fact
    keys_in_front = e.presort is not None and set([e.presort] if isinstance(e.presort, str) else e.presort) <= {"k", "j"}
    c = draw(catgen.cat_case([name], max_rows=6 if tier == "quick" else 12, allow_ragged=variant != "presorted" or keys_in_front,
                             ragged_min=2 if variant == "presorted" else 0))
    if draw(st.integers(0, 2)) == 0:
        # whole rows repeated within a table (dedup / set operations / grouping have work to do then)
        for t in c["sources"]:
            for _ in range(draw(st.integers(1, 2)) if len(t) > 1 else 0):
                t.insert(draw(st.integers(1, len(t))), list(t[draw(st.integers(1, len(t) - 1))]))
    n = max(len(t) - 1 for t in c["sources"])
    c["variant"] = variant
    c["buffersize"] = draw(st.sampled_from(sorted({1, 2, max(1, n - 1), max(1, n), n + 1, 2 * n + 1})))
    c["cache"] = draw(st.booleans())
    upstream_ok = not e.cells  # direct-cell entries need their own cell kinds
    c["upstream"] = draw(st.sampled_from(sorted(UPSTREAM) + ["records_missing"] * 2 + ["mixed_rows"] * 2)) if upstream_ok and draw(st.booleans()) else "list"
    if c["upstream"].startswith("records") and variant != "presorted":
        # Record rows too short to hold the key fields (the row object answers for the absent cell)
        for t in c["sources"]:
            for _ in range(draw(st.integers(0, 2))):
                t.insert(draw(st.integers(1, len(t))), t[draw(st.integers(1, len(t) - 1))][:draw(st.integers(0, 1))] if len(t) > 1 else [])
    # the other inputs get a row container of their own (list rows on one side, tuple rows or a view on the other)
    c["upstream2"] = draw(st.sampled_from(sorted(UPSTREAM))) if upstream_ok and draw(st.booleans()) else c["upstream"]
    return c


def _presort(e, S):
    out = []
    for i, t in enumerate(S):
        key = e.presort
        t2 = t
        if i == 1 and e.name.startswith(("join", "leftjoin", "rightjoin", "outerjoin", "antijoin", "lookupjoin")):
            pass  # key names are unchanged by the renames done inside the entry
        out.append([list(r) for r in R.ref_sort(t2, key)])
    return out


def _run(e, S, passes=2, **kw):
    view = e.build(S, **kw) if kw else e.build(S)
    return [[tuple(r) for r in view] for _ in range(passes)]


def check_variant(case, ctx):
    e = catalog.get(case["entry"])
    b = scale.derive(case, odds=20, sizes=[300, 1100, 2100, 2600], wide=False) if (not e.cells and e.n <= 2) else None
    if b and all(len(t) > 1 for t in case["sources"]):
        # at scale: the first source blown up (a second one kept to a few rows), chunk sizes from "a hundred chunk files" to
        # "one chunk of more than 1000 rows"
        nb = b["rows"]
        src = [scale.apply(case["sources"][0], b)] + [[list(r) for r in t[:5]] for t in case["sources"][1:]]
        bs_ = (max(1, nb // 100), 1001, 1500, max(1, nb // 2), 1001, max(1, nb // 70))[(nb + len(case["sources"][0])) % 6]
        case = dict(case, sources=src, buffersize=bs_)
        scale.label(ctx, b)
    variant, bs = case["variant"], case["buffersize"]
    S0 = codec.snapshot(case["sources"])
    if variant == "presorted":
        S0 = _presort(e, S0)
    ups = [UPSTREAM[case["upstream"]]] + [UPSTREAM[case.get("upstream2", case["upstream"])]] * 3

    def wrapped(S):
        return [ups[i](t) for i, t in enumerate(S)]
    ctx.label("entry:" + e.name, "variant:" + variant, "upstream:" + case["upstream"])
    if e.n >= 2 and case.get("upstream2", case["upstream"]) != case["upstream"]:
        ctx.label("mixed-row-containers")
    try:
        base = _run(e, wrapped(codec.snapshot(S0)), passes=1)[0]
    except Exception as ex:
        ctx.label("rejected:" + type(ex).__name__)
        return None
    kw = {}
    tmp = None
    if variant == "buffersize":
        kw = {"buffersize": bs, "cache": case["cache"]}
    elif variant == "tempdir":
        tmp = ctx.tmpdir()
        kw = {"buffersize": bs, "tempdir": tmp, "cache": case["cache"]}
    elif variant == "nocache":
        kw = {"cache": False}
    elif variant == "presorted":
        kw = {"presorted": True}
    old = cfg.sort_buffersize
    try:
        if variant == "config":
            cfg.sort_buffersize = bs
            kw = {"cache": case["cache"]}
        try:
            S = wrapped(codec.snapshot(S0))
            view = e.build(S, **kw)
            outs = []
            import os
            saw_files = False
            for _ in range(2):
                it = iter(view)
                rows = []
                for r in it:
                    rows.append(tuple(r))
                    if tmp and not saw_files and os.listdir(tmp):
                        saw_files = True
                outs.append(rows)
        except Exception as ex:
            return exc_fail("%s/%s" % (e.name, variant), ex)
    finally:
        cfg.sort_buffersize = old
    n = max(len(t) - 1 for t in S0)
    changes_path = variant in ("presorted", "nocache") or bs <= n
    ctx.nontrivial(changes_path and len(base) >= 3)
    if variant == "tempdir" and bs < n:
        ctx.label("chunk-files-seen" if saw_files else "no-chunk-files")
    for p, got in enumerate(outs):
        if got != base:
            return Fail("%s/%s/differs" % (e.name, variant), "%s with %r (upstream %s/%s) pass %d gave %r, default call gave %r on %r"
                        % (e.name, dict(kw, config=bs if variant == "config" else None), case["upstream"], case.get("upstream2"), p, got, base, S0))
    return None


# natural joins and the record* set operations read the headers at construction (C02 allows exactly that)
HEADER_AT_CONSTRUCTION = reuse.HEADER_AT_CONSTRUCTION


# ---- histories -------------------------------------------------------------------------------------------
HNAMES = NAMES + catalog.names("hashcache")


def history_case(tier, shard=0, nshards=1):
    return _history_case(tier, HNAMES[shard::nshards] or HNAMES)


history_case.sharded = True


@st.composite
def _history_case(draw, tier, names):
    c = draw(catgen.cat_case(names, max_rows=5, min_rows=1, allow_ragged=False))
    e = catalog.get(c["entry"])
    c["cache"] = draw(st.booleans())
    c["buffersize"] = draw(st.sampled_from([None, 2, 1, 3]))
    nsteps = draw(gen.sizes(3, 9))
    steps = []
    # opening: a third of the histories start with a pass that hits a transient source fault (the first thing a cache
    # could wrongly remember), before anything has been completed
    if draw(st.integers(0, 2)) == 0:
        steps.append(["failpass", draw(st.integers(0, e.n - 1)), draw(st.integers(0, 3))])
    row = catgen.cat_table(max_rows=1, min_rows=1, cells=e.cells).map(lambda t: t[1])
    # opening: an abandoned pass (header only, or a few rows), then an edit, then a full pass - what an operator tidies up
    # only at the END of a pass is still lying around then
    if draw(st.integers(0, 2)) == 0:
        steps.append(["partial", draw(st.integers(1, 3))])
        steps.append(["edit", draw(st.integers(0, e.n - 1)), draw(st.sampled_from(["append", "delete", "replace"])),
                      draw(st.integers(0, 5)), draw(row)])
        steps.append(["full"])
    for _ in range(nsteps):
        kind = draw(st.sampled_from(["full", "full", "edit", "edit", "partial", "failpass"]))
        if kind == "edit":
            # row edits, and edits of the column layout (two columns swapped / a column inserted, header and cells, in
            # place): whatever a view remembers about field positions is stale afterwards
            steps.append(["edit", draw(st.integers(0, e.n - 1)),
                          draw(st.sampled_from(["append", "delete", "replace", "append", "delete", "replace", "swapcols", "insertcol"])),
                          draw(st.integers(0, 5)), draw(row)])
        elif kind == "partial":
            steps.append(["partial", draw(st.integers(1, 3))])
        elif kind == "failpass":
            # a full pass during which source `si` raises at data row `at` (a transient fault: later passes work again)
            steps.append(["failpass", draw(st.integers(0, e.n - 1)), draw(st.integers(0, 4))])
        else:
            steps.append(["full"])
    steps.append(["full"])
    c["steps"] = steps
    c["fail_kind"] = draw(st.sampled_from(BOOM_KINDS))
    # presorted=True histories: the harness keeps the sources sorted by the operator's key (re-sorting after every edit);
    # nothing is sorted or cached then, so every pass reflects the sources, whatever `cache` says
    c["presorted"] = e.has("presorted") and draw(st.integers(0, 3)) == 0
    return c


def check_history(case, ctx):
    e = catalog.get(case["entry"])
    cache, bs = case["cache"], case["buffersize"]
    rows = [[list(r) for r in t] for t in case["sources"]]
    srcs = [Counting(r) for r in rows]
    kw = {"cache": cache}
    hashop = e.has("hashcache")
    if bs is not None and not hashop:
        kw["buffersize"] = bs
        kw["tempdir"] = ctx.tmpdir()
    hash_cached = hashop and cache   # a cached lookup replays the build side only: checked until the first completed pass
    # (groupselectmin/max sort by the VALUE first, so their presorted argument cannot switch the sorting - and its cache - off)
    presorted = bool(case.get("presorted")) and e.has("presorted") and e.name not in ("groupselectmin", "groupselectmax",
                                                                                       "unjoin_left", "unjoin_right")

    def resort(si):
        rows[si][:] = [list(r) for r in R.ref_sort(rows[si], e.presort)]
    if presorted:
        for si in range(len(rows)):
            resort(si)
        kw = {"presorted": True, "cache": cache}
        cache = False        # judged like cache=False: there is no sort whose result could be replayed
        ctx.label("presorted")
    ctx.label("entry:" + e.name, "cache" if cache else "nocache", "bs:%s" % bs)

    def fresh():
        return [tuple(r) for r in e.build(codec.snapshot(rows))]
    try:
        fresh()
    except Exception as ex:
        ctx.label("rejected:" + type(ex).__name__)
        return None
    try:
        view = e.build(srcs, **kw)
    except Exception as ex:
        return exc_fail(e.name + "/construct", ex)
    P = None
    P_unstarted = False
    started = False       # some pass (full, partial or failed) has been started on the view
    edited = False
    tainted = False       # an abandoned pass happened before the first completed one
    fulls_after_edit = 0
    seen_edit = False
    for step in case["steps"]:
        if step[0] == "edit":
            _, si, how, pos, newrow = step
            data = rows[si]
            lab = reuse.apply_edit(data, how, pos, newrow, layout_ok=e.name not in HEADER_AT_CONSTRUCTION)
            if lab == "layout-edit":
                ctx.label("layout-edit")
            if presorted:
                resort(si)
            edited = True
            seen_edit = True
            continue
        for s in srcs:
            s.reset()
        armed = None
        if step[0] == "failpass":
            _, si, at = step
            if at >= len(rows[si]) - 1:
                continue   # nothing to fail at
            armed = si
            srcs[si].fail_at = at
            srcs[si].fail_kind = case.get("fail_kind", "plain")
            ctx.label("failpass")
        started_before = started
        started = True
        try:
            exp_now = fresh()
        except Exception:
            ctx.label("rejected-after-edit")
            return None
        if hash_cached and (P is not None or edited):
            # a cached lookup of the build side next to a re-read probe side: neither a replay nor the sources' current
            # contents, and nothing the statement (sort-backed operators) speaks about
            ctx.label("hash-cache-true-unchecked")
            return None
        try:
            it = iter(view)
            if step[0] == "partial":
                got = []
                for i, r in enumerate(it):
                    got.append(tuple(r))
                    if i + 1 >= step[1]:
                        break
                del it
            else:
                got = [tuple(r) for r in it]
        except Boom:
            # the transient fault surfaced: the pass neither completed nor changed anything; later passes work again
            srcs[armed].fail_at = None
            continue
        except Exception as ex:
            return exc_fail("%s/%s" % (e.name, "cache" if cache else "nocache"), ex)
        finally:
            if armed is not None:
                srcs[armed].fail_at = None
        # (a pass with an armed fault that completes did not need the failing row - an operator may stop early or be
        #  served from its cache - and is judged like any other full pass)
        pulls = [s.data_pulls for s in srcs]
        j = len(got)
        if not cache:
            if got != exp_now[:j] or (step[0] != "partial" and got != exp_now):
                return Fail("%s/nocache-stale" % e.name, "cache=False %s pass gave %r, sources now give %r (history %r)" % (step[0], got, exp_now, case["steps"]))
        else:
            if P is not None:
                if got != P[:j] or (step[0] != "partial" and got != P):
                    if P_unstarted and got[1:] == P[1:j]:
                        # known finding cache-unstarted-input: only the header differs, and during the completed pass one
                        # non-empty input was never asked for a data row, so its sort (and cache) never came to be
                        return Fail("%s/cache-replay-header-differs-unstarted-input" % e.name, "cache=True %s pass gave header %r, completed pass "
                                    "gave %r; during the completed pass an input was never asked for a data row" % (step[0], got[:1], P[:1]))
                    return Fail("%s/cache-replay-differs" % e.name, "cache=True %s pass gave %r, completed pass gave %r" % (step[0], got, P))
                if any(pulls):
                    return Fail("%s/cache-rereads-sources" % e.name, "cache=True pass after a completed pass pulled %r data rows" % (pulls,))
            else:
                if not edited:
                    if got != exp_now[:j] or (step[0] != "partial" and got != exp_now):
                        return Fail("%s/first-pass-differs" % e.name, "first %s pass gave %r, default call gives %r" % (step[0], got, exp_now))
                if step[0] == "partial":
                    tainted = True
                else:
                    P = got
                    # did the completed pass leave a non-empty input without a single data row pulled?
                    P_unstarted = any(s_.data_pulls == 0 and len(rows[i]) > 1 for i, s_ in enumerate(srcs))
        if step[0] in ("full", "failpass") and seen_edit:
            fulls_after_edit += 1
    ctx.nontrivial(fulls_after_edit >= 1 and sum(1 for s in case["steps"] if s[0] == "full") >= 2)
    return None


SUBS = [
    Sub("variants", check_variant, strategy=variant_case, quick=20000, thorough=200000),
    Sub("histories", check_history, strategy=history_case, quick=10000, thorough=100000),
]


def _known_unstarted(sub, case, fail):
    return sub == "histories" and fail.bucket.endswith("/cache-replay-header-differs-unstarted-input")


KNOWN = {"cache-unstarted-input": _known_unstarted}

# cases at scale (see pv/scale.py)
RULE += scale.RULE
