"""C12 - row- and field-level transforms touch only what they are asked to."""
import collections

import petl as etl
from hypothesis import strategies as st

from pv import gen, codec
from pv import scale
from pv.core import Sub, Fail, exc_fail
from pv.ref import base as R, rowops as RO

ID = "C12"
LEVEL = "exploration"
RULE = ("Hypothesis draws a table (mixed-type cells; ragged rows where the function documents padding; duplicate field names "
        "for the positional functions) and, per function, one of its documented argument forms (fields by name / index / "
        "mixed, negative and out-of-range insertion indices, lists and dicts of converters, where=, pass_row, missing=, "
        "header=). Oracle: a direct cell-by-cell reference implementation of each function written from its docstring "
        "(pv/ref/rowops.py and this module), compared as a type-strict sequence of tuples; plus the frame laws: one output "
        "row per input row in input order and untouched columns carried over unchanged. Non-trivial = the case exercises a "
        "ragged row, a duplicate field name or a non-default argument form and has >= 2 data rows. Sub 'dupnames': on tables "
        "whose header repeats a field name, every way of reading that field by name (values, cut, the three mapping forms of "
        "fieldmap, record access in addfield/rowmap/records) must read the same column, and it must be a column of that name "
        "(which one is not claimed). Sub 'setitem': two fieldmap / convert views configured by item assignment (the documented "
        "suffix notation) are each exactly what they were given - no configuration leaks from one view to the next. Sub 'chain': a second function of the family applied "
        "to the OUTPUT VIEW of a first (one time in four the same function twice, each with arguments of its own); oracle: the "
        "two reference implementations composed - what a function does must not depend on its input being a list or another "
        "petl view (Record rows, tuples, fused shortcuts). Distinct by digest.")
ASSUMPTIONS = [
    "negative *field* indices are undocumented and not generated; movefield only with the moved name unique",
    "skipcomments: rows with >= 1 cell (an empty row has no first value)",
    "convertall/replaceall/formatall with distinct field names (they resolve fields by name)",
    "rectangular tables for addcolumn, addfieldusingcontext, filldown (nothing documented about ragged rows)",
    "columns(): `missing` is never equal to a field name",
]

CELL = st.one_of(gen.scalar, gen.scalar, st.sampled_from(["x", "xy", "#c", "", None, 0, 1]))


def conv(name):
    return {"tag": lambda v: ("c", v), "str": lambda v: "" if v is None else str(v), "none": lambda v: None}[name]


def _sq(row, n, missing=None):
    return RO.sq(row, n, missing)


def _T(rows):
    return [tuple(r) for r in rows]


# ---- argument strategies ------------------------------------------------------------------------------------------
def fieldspec(draw, hdr, min_n=1, max_n=3, allow_index=True):
    n = draw(st.integers(min_n, min(max_n, len(hdr))))
    idx = draw(st.lists(st.integers(0, len(hdr) - 1), min_size=n, max_size=n, unique=True))
    spec = []
    for i in idx:
        by_index = allow_index and draw(st.booleans())
        # a name may only be used if it resolves to this very position (first unused occurrence)
        spec.append(i if by_index or hdr.index(hdr[i]) != i or not isinstance(hdr[i], str) else hdr[i])
    return spec


OPS = {}


def _h(t):
    """The header of a table given as a list of rows or as a petl view."""
    return list(t[0]) if isinstance(t, (list, tuple)) else list(etl.header(t))


def op(name, ragged=True, dup=False, min_fields=1):
    def deco(cls):
        cls.name, cls.ragged, cls.dup, cls.min_fields = name, ragged, dup, min_fields
        OPS[name] = cls
        return cls
    return deco


@op("cut", dup=True)
class Cut:
    @staticmethod
    def args(draw, t):
        return {"spec": fieldspec(draw, t[0]), "missing": draw(st.sampled_from([None, "M", None, "M", 0, "", False]))}

    @staticmethod
    def run(t, a):
        return etl.cut(t, *a["spec"], missing=a["missing"])

    @staticmethod
    def ref(t, a):
        idx = R.resolve(t[0], a["spec"])
        return [tuple(t[0][i] for i in idx)] + [tuple(R.cell(r, i, a["missing"]) for i in idx) for r in t[1:]]


@op("cutout", dup=True)
class CutOut:
    @staticmethod
    def args(draw, t):
        return {"spec": fieldspec(draw, t[0], max_n=2), "missing": draw(st.sampled_from([None, "M", None, "M", 0, "", False]))}

    @staticmethod
    def run(t, a):
        return etl.cutout(t, *a["spec"], missing=a["missing"])

    @staticmethod
    def ref(t, a):
        out = R.resolve(t[0], a["spec"])
        idx = [i for i in range(len(t[0])) if i not in out]
        return [tuple(t[0][i] for i in idx)] + [tuple(R.cell(r, i, a["missing"]) for i in idx) for r in t[1:]]


@op("movefield")
class MoveField:
    @staticmethod
    def args(draw, t):
        return {"field": draw(st.sampled_from(t[0])), "index": draw(st.integers(-len(t[0]) - 1, len(t[0]) + 1))}

    @staticmethod
    def run(t, a):
        return etl.movefield(t, a["field"], a["index"])

    @staticmethod
    def ref(t, a):
        hdr = list(t[0])
        src = hdr.index(a["field"])
        order = [i for i in range(len(hdr)) if i != src]
        order.insert(a["index"], src)
        return [tuple(hdr[i] for i in order)] + [tuple(R.cell(r, i) for i in order) for r in t[1:]]


@op("cat")
class Cat:
    @staticmethod
    def args(draw, t):
        h2 = draw(st.lists(st.sampled_from(list(t[0]) + ["p", "q"]), min_size=1, max_size=3, unique=True))
        t2 = draw(gen.table(h2, [CELL] * len(h2), max_rows=3, ragged=True))
        a = {"t2": t2, "missing": draw(st.sampled_from([None, "M", None, "M", 0, "", False]))}
        if draw(st.integers(0, 2)) == 0:
            a["header"] = draw(st.lists(st.sampled_from(list(t[0]) + h2 + ["zz"]), min_size=1, max_size=4, unique=True))
        if draw(st.integers(0, 3)) == 0:
            a["single"] = True
        return a

    @staticmethod
    def run(t, a):
        kw = {"missing": a["missing"]}
        if "header" in a:
            kw["header"] = a["header"]
        return etl.cat(t, **kw) if a.get("single") else etl.cat(t, a["t2"], **kw)

    @staticmethod
    def ref(t, a):
        ts = [t] if a.get("single") else [t, a["t2"]]
        return R.ref_cat(ts, missing=a["missing"], header=a.get("header"))


@op("stack", dup=True)
class Stack:
    @staticmethod
    def args(draw, t):
        h2 = draw(gen.header(min_n=1, max_n=4, unique=False))
        return {"t2": draw(gen.table(h2, [CELL] * len(h2), max_rows=3, ragged=True)), "missing": draw(st.sampled_from([None, "M", None, "M", 0, "", False])),
                "trim": draw(st.booleans()), "pad": draw(st.booleans())}

    @staticmethod
    def run(t, a):
        return etl.stack(t, a["t2"], missing=a["missing"], trim=a["trim"], pad=a["pad"])

    @staticmethod
    def ref(t, a):
        return RO.ref_stack([t, a["t2"]], a["missing"], a["trim"], a["pad"])


@op("annex", dup=True)
class Annex:
    @staticmethod
    def args(draw, t):
        h2 = draw(gen.header(min_n=1, max_n=3, unique=False))
        return {"t2": draw(gen.table(h2, [CELL] * len(h2), max_rows=5, ragged=True)), "missing": draw(st.sampled_from([None, "M", None, "M", 0, "", False]))}

    @staticmethod
    def run(t, a):
        return etl.annex(t, a["t2"], missing=a["missing"])

    @staticmethod
    def ref(t, a):
        return RO.ref_annex([t, a["t2"]], a["missing"])


@op("addfield", dup=True)
class AddField:
    @staticmethod
    def args(draw, t):
        return {"value": draw(st.sampled_from(["const", "calc"])), "index": draw(st.one_of(st.none(), st.integers(-len(t[0]) - 1, len(t[0]) + 2))),
                "missing": draw(st.sampled_from([None, "M", None, "M", 0, "", False]))}

    @staticmethod
    def run(t, a):
        v = 42 if a["value"] == "const" else (lambda rec: ("calc", rec[0], len(rec)))
        return etl.addfield(t, "new", v, index=a["index"], missing=a["missing"])

    @staticmethod
    def ref(t, a):
        n = len(t[0])
        index = n if a["index"] is None else a["index"]
        hdr = list(t[0])
        hdr.insert(index, "new")
        out = [tuple(hdr)]
        for r in t[1:]:
            r = list(_sq(r, n, a["missing"]))
            v = 42 if a["value"] == "const" else ("calc", r[0] if r else None, len(r))
            r.insert(index, v)
            out.append(tuple(r))
        return out


@op("addfields", dup=True)
class AddFields:
    @staticmethod
    def args(draw, t):
        n = len(t[0])
        return {"defs": [[nm, draw(st.sampled_from(["const", "calc"]))] + ([draw(st.integers(-n - 1, n + 2))] if draw(st.booleans()) else [])
                         for nm in ["n1", "n2"][:draw(st.integers(1, 2))]], "missing": draw(st.sampled_from([None, "M", None, "M", 0, "", False]))}

    @staticmethod
    def run(t, a):
        defs = [tuple([d[0], 7 if d[1] == "const" else (lambda rec: ("calc", rec[0]))] + d[2:]) for d in a["defs"]]
        return etl.addfields(t, defs, missing=a["missing"])

    @staticmethod
    def ref(t, a):
        n = len(t[0])
        hdr = list(t[0])
        pos = []
        for d in a["defs"]:
            index = d[2] if len(d) == 3 else len(hdr)
            hdr.insert(index, d[0])
            pos.append(index)
        out = [tuple(hdr)]
        for r in t[1:]:
            src = _sq(r, n, a["missing"])
            o = list(src)
            for d, index in zip(a["defs"], pos):
                o.insert(index, 7 if d[1] == "const" else ("calc", src[0] if src else None))
            out.append(tuple(o))
        return out


@op("addcolumn", ragged=False, dup=True)
class AddColumn:
    @staticmethod
    def args(draw, t):
        # (the column holds ordinary values - None and the very `missing` markers included: they are values, not "absent")
        return {"col": draw(st.lists(st.one_of(st.integers(0, 9), st.none(), st.sampled_from(["M", "", False, 0, None])), max_size=len(t) + 1)), "index": draw(st.one_of(st.none(), st.integers(0, len(t[0]) + 1))),
                "missing": draw(st.sampled_from([None, "M", None, "M", 0, "", False]))}

    @staticmethod
    def run(t, a):
        return etl.addcolumn(t, "new", a["col"], index=a["index"], missing=a["missing"])

    @staticmethod
    def ref(t, a):
        n = len(t[0])
        index = n if a["index"] is None else a["index"]
        hdr = list(t[0])
        hdr.insert(index, "new")
        out = [tuple(hdr)]
        rows, col = t[1:], a["col"]
        for i in range(max(len(rows), len(col))):
            r = list(rows[i]) if i < len(rows) else [a["missing"]] * n
            r.insert(index, col[i] if i < len(col) else a["missing"])
            out.append(tuple(r))
        return out


@op("addrownumbers", dup=True)
class AddRowNumbers:
    @staticmethod
    def args(draw, t):
        return {"start": draw(st.integers(-2, 3)), "step": draw(st.sampled_from([1, 2, -1])), "field": draw(st.sampled_from(["row", "n"]))}

    @staticmethod
    def run(t, a):
        return etl.addrownumbers(t, start=a["start"], step=a["step"], field=a["field"])

    @staticmethod
    def ref(t, a):
        return [(a["field"],) + tuple(t[0])] + [(a["start"] + i * a["step"],) + tuple(r) for i, r in enumerate(t[1:])]


@op("addfieldusingcontext", ragged=False, dup=True)
class AddFieldUsingContext:
    @staticmethod
    def args(draw, t):
        return {}

    @staticmethod
    def run(t, a):
        return etl.addfieldusingcontext(t, "ctx", lambda p, c, n: (None if p is None else tuple(p), None if n is None else tuple(n)))

    @staticmethod
    def ref(t, a):
        rows = _T(t[1:])
        out = [tuple(t[0]) + ("ctx",)]
        prev = None
        for i, r in enumerate(rows):
            nxt = rows[i + 1] if i + 1 < len(rows) else None
            v = (prev, nxt)
            o = r + (v,)
            out.append(o)
            prev = o
        return out


@op("rename", dup=True)
class Rename:
    @staticmethod
    def args(draw, t):
        form = draw(st.sampled_from(["pair", "dict", "index", "nonstrict"]))
        hdr = t[0]
        # (the new name may be falsy: '', 0 - a name like any other)
        new1 = draw(st.sampled_from(["R", "R", "", 0]))
        if form == "pair":
            return {"form": form, "spec": {draw(st.sampled_from(hdr)): new1}}
        if form == "index":
            return {"form": form, "spec": {draw(st.integers(0, len(hdr) - 1)): new1}}
        if form == "nonstrict":
            return {"form": form, "spec": {"nosuchfield": "R", draw(st.sampled_from(hdr)): "S"}}
        keys = draw(st.lists(st.one_of(st.sampled_from(hdr), st.integers(0, len(hdr) - 1)), min_size=1, max_size=3, unique=True))
        # new names may be existing field names: swaps and chains must be applied in ONE pass over the old header
        newnames = st.one_of(st.sampled_from(list(hdr)), st.sampled_from(["R0", "R1", ""]))
        return {"form": form, "spec": dict((k, draw(newnames)) for k in keys)}

    @staticmethod
    def run(t, a):
        if a["form"] in ("pair", "index"):
            (k, v), = a["spec"].items()
            return etl.rename(t, k, v)
        return etl.rename(t, dict(a["spec"]), strict=a["form"] != "nonstrict")

    @staticmethod
    def ref(t, a):
        spec = a["spec"]
        hdr = [spec[i] if i in spec and not isinstance(i, bool) else spec[f] if f in spec else f for i, f in enumerate(t[0])]
        return [tuple(hdr)] + _T(t[1:])


@op("setheader", dup=True)
class SetHeader:
    @staticmethod
    def args(draw, t):
        return {"header": draw(gen.header(min_n=0, max_n=5, unique=False))}

    @staticmethod
    def run(t, a):
        return etl.setheader(t, a["header"])

    @staticmethod
    def ref(t, a):
        return [tuple(a["header"])] + _T(t[1:])


@op("extendheader", dup=True)
class ExtendHeader:
    @staticmethod
    def args(draw, t):
        return {"fields": draw(gen.header(min_n=0, max_n=3, unique=False))}

    @staticmethod
    def run(t, a):
        return etl.extendheader(t, a["fields"])

    @staticmethod
    def ref(t, a):
        return [tuple(t[0]) + tuple(a["fields"])] + _T(t[1:])


@op("pushheader", dup=True)
class PushHeader:
    @staticmethod
    def args(draw, t):
        return {"header": draw(gen.header(min_n=1, max_n=4, unique=False)), "positional": draw(st.booleans())}

    @staticmethod
    def run(t, a):
        if a["positional"] and len(a["header"]) > 1:
            return etl.pushheader(t, *a["header"])
        return etl.pushheader(t, a["header"])

    @staticmethod
    def ref(t, a):
        return [tuple(a["header"])] + _T(t)


@op("prefixsuffix", dup=True)
class PrefixSuffix:
    @staticmethod
    def args(draw, t):
        return {"which": draw(st.sampled_from(["prefix", "suffix"])), "s": draw(st.sampled_from(["p_", "", 1]))}

    @staticmethod
    def run(t, a):
        return etl.prefixheader(t, a["s"]) if a["which"] == "prefix" else etl.suffixheader(t, a["s"])

    @staticmethod
    def ref(t, a):
        hdr = [str(a["s"]) + str(f) if a["which"] == "prefix" else str(f) + str(a["s"]) for f in t[0]]
        return [tuple(hdr)] + _T(t[1:])


@op("sortheader")
class SortHeader:
    @staticmethod
    def args(draw, t):
        return {"reverse": draw(st.booleans()), "missing": draw(st.sampled_from([None, "M", None, "M", 0, "", False]))}

    @staticmethod
    def run(t, a):
        return etl.sortheader(t, reverse=a["reverse"], missing=a["missing"])

    @staticmethod
    def ref(t, a):
        order = sorted(range(len(t[0])), key=lambda i: t[0][i], reverse=a["reverse"])
        return [tuple(t[0][i] for i in order)] + [tuple(R.cell(r, i, a["missing"]) for i in order) for r in t[1:]]


@op("skip", dup=True)
class Skip:
    @staticmethod
    def args(draw, t):
        return {"n": draw(st.integers(0, len(t) + 1))}

    @staticmethod
    def run(t, a):
        return etl.skip(t, a["n"])

    @staticmethod
    def ref(t, a):
        return _T(t[a["n"]:])


@op("skipcomments", dup=True)
class SkipComments:
    @staticmethod
    def args(draw, t):
        return {"prefix": draw(st.sampled_from(["#", "x", "#c"]))}

    @staticmethod
    def run(t, a):
        return etl.skipcomments([r for r in t if len(r) > 0], a["prefix"])

    @staticmethod
    def ref(t, a):
        return [tuple(r) for r in t if len(r) > 0 and not (isinstance(r[0], str) and r[0].startswith(a["prefix"]))]


@op("convert", dup=True)
class Convert:
    @staticmethod
    def args(draw, t):
        hdr = t[0]
        form = draw(st.sampled_from(["field-fn", "fields-fn", "dict", "list", "dictconv", "method", "where", "passrow", "where-passrow",
                                      "dict-mixed", "where-str"]))
        a = {"form": form, "fn": draw(st.sampled_from(["tag", "str", "none"]))}
        if form == "dict-mixed":
            # a different conversion per field: a function, a method name with arguments, a dictionary
            a["field"] = fieldspec(draw, hdr, max_n=3)
        elif form in ("field-fn", "dictconv", "method", "where", "passrow", "where-passrow", "where-str"):
            a["field"] = fieldspec(draw, hdr, max_n=1)[0]
        elif form == "fields-fn":
            a["field"] = fieldspec(draw, hdr, max_n=2)
        elif form == "dict":
            a["field"] = fieldspec(draw, hdr, max_n=2)
        else:
            a["n"] = draw(st.integers(1, len(hdr)))
        if form == "dictconv":
            cells = [c for r in t[1:] for c in r]
            a["mapping"] = [[draw(st.sampled_from(cells)) if cells else 0, "mapped"], [None, "was-none"]]
        return a

    @staticmethod
    def _where(rec):
        return rec[0] is not None

    @staticmethod
    def _mixed(f):
        return [f, lambda v: ("second", v), {None: "was-none", 1: "one"}]

    @staticmethod
    def run(t, a):
        f = conv(a["fn"])
        form = a["form"]
        if form == "field-fn":
            return etl.convert(t, a["field"], f)
        if form == "fields-fn":
            return etl.convert(t, tuple(a["field"]), f)
        if form == "dict":
            return etl.convert(t, dict((k, f) for k in a["field"]))
        if form == "list":
            return etl.convert(t, [f] * a["n"])
        if form == "dictconv":
            return etl.convert(t, a["field"], dict((k, v) for k, v in a["mapping"] if _hashable(k)))
        if form == "method":
            return etl.convert(etl.convert(t, a["field"], conv("str")), a["field"], "replace", "x", "Y")
        if form == "where":
            return etl.convert(t, a["field"], f, where=Convert._where)
        if form == "where-str":
            # where= as an expression string over the first field (when its name can be written in one)
            n0 = _h(t)[0]
            if isinstance(n0, str) and n0.isidentifier() and [str(x) for x in _h(t)].count(n0) == 1:
                return etl.convert(t, a["field"], f, where="{%s} is not None" % n0)
            return etl.convert(t, a["field"], f, where=Convert._where)
        if form == "dict-mixed":
            return etl.convert(t, dict(zip(a["field"], Convert._mixed(f))))
        if form == "where-passrow":
            # both features together; the converter reads the row by position, by name and by attribute
            name0 = _h(t)[0]
            return etl.convert(t, a["field"], lambda v, row: ("pr", v, len(row), row[0], row[name0]), pass_row=True, where=Convert._where,
                               failonerror=True)
        return etl.convert(t, a["field"], lambda v, row: ("pr", v, len(row)), pass_row=True)

    @staticmethod
    def ref(t, a):
        hdr = t[0]
        form = a["form"]
        f = conv(a["fn"])

        def first_index(k):
            return k if isinstance(k, int) and not isinstance(k, bool) else [str(x) for x in hdr].index(k)
        per = {}
        if form == "dict-mixed":
            # (when two specs name the same column the later dict entry wins for a name/index pair of different text;
            # the generator's fieldspec gives distinct columns)
            for k, c in zip(a["field"], Convert._mixed(f)):
                per[first_index(k)] = c
        if form == "list":
            idx = list(range(a["n"]))
        elif form in ("fields-fn", "dict", "dict-mixed"):
            idx = [first_index(k) for k in a["field"]]
        else:
            idx = [first_index(a["field"])]
        out = [tuple(hdr)]
        for r in t[1:]:
            r = tuple(r)
            if form in ("where", "where-passrow", "where-str") and not (len(r) > 0 and r[0] is not None):
                out.append(r)
                continue
            o = []
            for i, v in enumerate(r):
                if i in idx:
                    if form == "dictconv":
                        m = dict((k, w) for k, w in a["mapping"] if _hashable(k))
                        v = m[v] if _hashable(v) and v in m else v
                    elif form == "method":
                        v = ("" if v is None else str(v)).replace("x", "Y")
                    elif form == "passrow":
                        v = ("pr", v, len(r))
                    elif form == "where-passrow":
                        v = ("pr", v, len(r), r[0], r[0])
                    elif form == "dict-mixed":
                        c = per[i]
                        v = (c[v] if _hashable(v) and v in c else v) if isinstance(c, dict) else c(v)
                    else:
                        v = f(v)
                o.append(v)
            out.append(tuple(o))
        return out


def _hashable(v):
    try:
        hash(v)
        return True
    except TypeError:
        return False


def _interp(v):
    """interpolate is `fmt % v` - Python's operator, for which a tuple cell is a tuple of arguments; a cell the format cannot
    take fails, and the default policy puts errorvalue (None) there."""
    try:
        return "<%r>" % v
    except Exception:
        return None


@op("convertall")
class ConvertAll:
    @staticmethod
    def args(draw, t):
        return {"which": draw(st.sampled_from(["convertall", "replaceall", "formatall", "interpolateall", "update", "replace", "format", "interpolate"])),
                "field": fieldspec(draw, t[0], max_n=1)[0], "where": draw(st.booleans())}

    @staticmethod
    def run(t, a):
        kw = {"where": Convert._where} if a["where"] else {}
        w = a["which"]
        if w == "convertall":
            return etl.convertall(t, conv("tag"), **kw)
        if w == "replaceall":
            return etl.replaceall(t, None, "nil", **kw)
        if w == "formatall":
            return etl.formatall(t, "<{}>", **kw)
        if w == "interpolateall":
            return etl.interpolateall(t, "<%r>", **kw)
        if w == "update":
            return etl.update(t, a["field"], "U", **kw)
        if w == "replace":
            return etl.replace(t, a["field"], None, "nil", **kw)
        if w == "format":
            return etl.format(t, a["field"], "<{}>", **kw)
        return etl.interpolate(t, a["field"], "<%r>", **kw)

    @staticmethod
    def ref(t, a):
        hdr = t[0]
        w = a["which"]
        allf = w.endswith("all")
        k = a["field"]
        target = None if allf else (k if isinstance(k, int) else hdr.index(k))
        f = {"convertall": conv("tag"), "replaceall": lambda v: "nil" if v is None else v, "formatall": lambda v: "<{}>".format(v),
             "interpolateall": _interp, "update": lambda v: "U", "replace": lambda v: "nil" if v is None else v,
             "format": lambda v: "<{}>".format(v), "interpolate": _interp}[w]
        out = [tuple(hdr)]
        for r in t[1:]:
            r = tuple(r)
            if a["where"] and not (len(r) > 0 and r[0] is not None):
                out.append(r)
                continue
            out.append(tuple(f(v) if (i < len(hdr) if allf else i == target) else v for i, v in enumerate(r)))
        return out


@op("filldown", ragged=False, dup=True)
class FillDown:
    @staticmethod
    def args(draw, t):
        return {"fields": draw(st.one_of(st.just([]), st.just(None))) if draw(st.booleans()) else fieldspec(draw, t[0], max_n=2),
                "missing": draw(st.sampled_from([None, None, "x", 0]))}

    @staticmethod
    def run(t, a):
        return etl.filldown(t, *(a["fields"] or []), missing=a["missing"])

    @staticmethod
    def ref(t, a):
        hdr = t[0]
        idx = R.resolve(hdr, a["fields"]) if a["fields"] else list(range(len(hdr)))
        out = [tuple(hdr)]
        last = {}
        for n, r in enumerate(t[1:]):
            o = list(r)
            for i in idx:
                if n > 0 and r[i] == a["missing"]:
                    o[i] = last[i]
                else:
                    last[i] = r[i]
            out.append(tuple(o))
        return out


@op("fillright", dup=True)
class FillRight:
    @staticmethod
    def args(draw, t):
        return {"dir": draw(st.sampled_from(["right", "left"])), "missing": draw(st.sampled_from([None, None, "x", 0]))}

    @staticmethod
    def run(t, a):
        return etl.fillright(t, missing=a["missing"]) if a["dir"] == "right" else etl.fillleft(t, missing=a["missing"])

    @staticmethod
    def ref(t, a):
        out = [tuple(t[0])]
        for r in t[1:]:
            o = list(r) if a["dir"] == "right" else list(reversed(r))
            have, lastv = False, None
            for i, v in enumerate(o):
                if v == a["missing"]:
                    if have:
                        o[i] = lastv
                else:
                    have, lastv = True, v
            out.append(tuple(o if a["dir"] == "right" else reversed(o)))
        return out


@op("fieldmap")
class FieldMap:
    @staticmethod
    def args(draw, t):
        return {"src": draw(st.sampled_from(t[0])), "src2": draw(st.sampled_from(t[0])), "srci": draw(st.integers(0, len(t[0]) - 1))}

    @staticmethod
    def run(t, a):
        m = collections.OrderedDict()
        m["a"] = a["src"]
        m["b"] = (a["src2"], conv("tag"))
        m["c"] = a["srci"]
        m["d"] = lambda rec: ("row", len(rec))
        m["e"] = (a["src"], {None: "nil"})
        return etl.fieldmap(t, m)

    @staticmethod
    def ref(t, a):
        hdr = list(t[0])
        out = [("a", "b", "c", "d", "e")]
        for r in t[1:]:
            va = R.cell(r, hdr.index(a["src"]))
            vb = R.cell(r, hdr.index(a["src2"]))
            out.append((va, ("c", vb), R.cell(r, a["srci"]), ("row", len(r)), "nil" if va is None else va))
        return out


@op("rowmap", dup=True)
class RowMap:
    @staticmethod
    def args(draw, t):
        return {}

    @staticmethod
    def run(t, a):
        return etl.rowmap(t, lambda row: [len(row), tuple(row)], header=["n", "row"])

    @staticmethod
    def ref(t, a):
        return [("n", "row")] + [(len(r), tuple(r)) for r in t[1:]]


@op("rowmapmany", dup=True)
class RowMapMany:
    """0, 1 or 2 output rows per input row (by a rule on the row's length), in input order."""

    @staticmethod
    def args(draw, t):
        return {"style": draw(st.sampled_from(["generator", "list"]))}

    @staticmethod
    def run(t, a):
        def gen_(row):
            for j in range(len(row) % 3):
                yield [j, len(row), tuple(row)]
        f = gen_ if a["style"] == "generator" else (lambda row: [[j, len(row), tuple(row)] for j in range(len(row) % 3)])
        return etl.rowmapmany(t, f, header=["j", "n", "row"])

    @staticmethod
    def ref(t, a):
        return [("j", "n", "row")] + [(j, len(r), tuple(r)) for r in t[1:] for j in range(len(r) % 3)]


NUMTEXT = ["1", "2.5", "1+2j", "x", "", None, " 3 ", "1e3", "0x10", 7, "-4", "1_0", "٣"]


@op("convertnumbers", ragged=False)
class ConvertNumbers:
    """Every cell through int, float, complex in that order; what none of them accepts stays as it is (strict=False)."""

    @staticmethod
    def args(draw, t):
        n = len(t[0])
        return {"cells": [[draw(st.sampled_from(NUMTEXT)) for _ in range(n)] for _ in t[1:]]}

    @staticmethod
    def _tbl(t, a):
        return [list(t[0])] + [list(r) for r in a["cells"]]

    @staticmethod
    def run(t, a):
        return etl.convertnumbers(ConvertNumbers._tbl(t, a))

    @staticmethod
    def ref(t, a):
        def parse(v):
            for f in (int, float, complex):
                try:
                    return f(v)
                except (ValueError, TypeError):
                    pass
            return v
        return [tuple(t[0])] + [tuple(parse(v) for v in r) for r in a["cells"]]


@op("sub")
class SubOp:
    @staticmethod
    def args(draw, t):
        return {"field": fieldspec(draw, t[0], max_n=1)[0], "count": draw(st.sampled_from([0, 1, 2])),
                "flags": draw(st.sampled_from([0, 0, "I"]))}

    @staticmethod
    def run(t, a):
        import re
        kw = {"flags": re.I} if a.get("flags") == "I" else {}
        return etl.sub(etl.convert(t, a["field"], conv("str")), a["field"], "[xa]", "Z", count=a["count"], **kw)

    @staticmethod
    def ref(t, a):
        import re
        k = a["field"]
        i = k if isinstance(k, int) else list(t[0]).index(k)
        fl = re.I if a.get("flags") == "I" else 0
        return [tuple(t[0])] + [tuple(re.sub("[xa]", "Z", "" if v is None else str(v), count=a["count"], flags=fl) if j == i else v
                                      for j, v in enumerate(r)) for r in t[1:]]


class Accessors:
    which = None

    @classmethod
    def args(cls, draw, t):
        return {"which": cls.which,
                "field": fieldspec(draw, t[0], max_n=2, min_n=2) if len(t[0]) >= 2 else None, "missing": draw(st.sampled_from([None, "M", None, "M", 0, "", False])),
                # islice-style arguments, incl. a stop of exactly 0 (nothing), a bare stop, a step
                "slice": draw(st.sampled_from([None, [1, None], [0, 2], [0], [2], [3, 0], [1, 0, 2], [0, None, 2], [None, 2], [1, 3, 1]])),
                "tupleform": draw(st.booleans())}

    @staticmethod
    def run(t, a):
        w, m, sl = a["which"], a["missing"], a["slice"] or []
        f = a["field"]
        if w == "values":
            k = f[0] if f else 0
            return [("v", x) for x in etl.values(t, k, missing=m)]
        if w == "values2":
            if not f:
                return [("v", x) for x in etl.values(t, 0, missing=m)]
            if a.get("tupleform"):
                return [("v", x) for x in etl.values(t, tuple(f), missing=m)]   # the fields as ONE tuple argument
            return [("v", x) for x in etl.values(t, *f, missing=m)]
        if w == "data":
            return [tuple(r) for r in etl.data(t, *sl)]
        if w == "dicts":
            return [tuple(sorted(d.items())) for d in etl.dicts(t, *sl, missing=m)]
        if w == "records":
            out = []
            for rec in etl.records(t, *sl, missing=m):
                out.append((tuple(rec), tuple(rec[str(n)] for n in t[0]), tuple(rec[i] for i in range(len(t[0])))))
            return out
        if w == "namedtuples":
            return [tuple(r) for r in etl.namedtuples(t, *sl, missing=m)]
        if w == "columns":
            return list(etl.columns(t, missing=m).items())
        return [tuple(etl.header(t)), tuple(etl.fieldnames(t))]

    @staticmethod
    def ref(t, a):
        w, m, sl = a["which"], a["missing"], a["slice"]
        hdr = list(t[0])
        rows = _T(t[1:])
        n = len(hdr)
        f = a["field"]
        sliced = rows[slice(*sl)] if sl else rows
        if w == "values" or (w == "values2" and not f):
            i = R.resolve(hdr, f[0])[0] if f else 0
            return [("v", R.cell(r, i, m)) for r in rows]
        if w == "values2":
            idx = R.resolve(hdr, f)
            return [("v", tuple(R.cell(r, i, m) for i in idx)) for r in rows]
        if w == "data":
            return sliced
        if w == "dicts":
            return [tuple(sorted(dict((hdr[i], R.cell(r, i, m)) for i in range(n)).items())) for r in sliced]
        if w == "records":
            return [(r, tuple(R.cell(r, hdr.index(nm), m) for nm in hdr), tuple(R.cell(r, i, m) for i in range(n))) for r in sliced]
        if w == "namedtuples":
            return [_sq(r, n, m) for r in sliced]
        if w == "columns":
            return [(nm, [R.cell(r, i, m) for r in rows]) for i, nm in enumerate(hdr)]
        return [tuple(hdr), tuple(str(x) for x in hdr)]


for _w in ["values", "values2", "data", "dicts", "records", "namedtuples", "columns", "header"]:
    op("acc-" + _w)(type("Acc_" + _w, (Accessors,), {"which": _w}))

NAMES = sorted(OPS)
IDENT = ["k", "j", "a", "b", "c", "v", "w", "x", "y", "foo"]


def case(tier, shard=0, nshards=1):
    return _case(tier, NAMES[shard::nshards] or NAMES)


case.sharded = True


@st.composite
def _case(draw, tier, names):
    name = draw(st.sampled_from(names))
    o = OPS[name]
    maxrows = 5 if tier == "quick" else 10
    nf = draw(st.integers(max(1, o.min_fields), 4))
    dup = o.dup and draw(st.integers(0, 2)) == 0
    # accessors build namedtuples / dicts: distinct identifier-like names
    hdr = draw(st.lists(st.sampled_from(IDENT), min_size=nf, max_size=nf, unique=not dup))
    ragged = o.ragged and draw(st.booleans())
    # usually one row in four is ragged; sometimes every row is (so that no row reaches the last fields at all)
    tbl = draw(gen.table(hdr, [CELL] * nf, max_rows=maxrows, ragged=ragged, extra=CELL,
                         ragged_odds=draw(st.sampled_from([4, 4, 2, 1])) if ragged else 4))
    if name == "skipcomments":
        tbl = [tbl[0]] + [r for r in tbl[1:] if len(r) > 0]
    if name == "filldown" and False:
        pass
    args = o.args(draw, tbl)
    c = {"op": name, "table": tbl, "args": args}
    # one case in ten runs at scale: the data rows repeated until the table passes a size that small examples never reach
    # (beyond 1000 rows, beyond an 8 KiB read buffer ...); the reference is computed on the big table itself
    if len(tbl) > 1:
        # (addfieldusingcontext's test function nests the previous row's value: depth grows with the row count;
        #  sortheader / accessors building namedtuples stay narrow)
        b = scale.derive(c, sizes=[65, 130] if name == "addfieldusingcontext" else None, wide=name not in ("setheader", "extendheader", "pushheader"), tier=tier)
        if b:
            c["blowup"] = b
    return c


def _blown(case):
    return scale.apply(case["table"], case.get("blowup"))


def check(case, ctx):
    o = OPS[case["op"]]
    tbl, args = _blown(case), case["args"]
    scale.label(ctx, case.get("blowup"))
    src = codec.snapshot(tbl)
    exp = o.ref(tbl, args)
    exp = [tuple(r) if isinstance(r, (list, tuple)) else r for r in exp]
    isragged = any(len(r) != len(tbl[0]) for r in tbl[1:])
    isdup = len(set(tbl[0])) < len(tbl[0])
    ctx.label("op:" + o.name, "ragged" if isragged else "rect", "dup-names" if isdup else "distinct-names")
    ctx.nontrivial(len(tbl) >= 3 and (isragged or isdup or bool(args)))
    try:
        res = o.run(src, args)
        got = [tuple(r) if isinstance(r, (list, tuple)) else r for r in res]
    except Exception as ex:
        return exc_fail(o.name, ex)
    if not codec.strict_eq(got, exp):
        what = "rows"
        if len(got) != len(exp):
            what = "row-count"
        elif got[:1] != exp[:1]:
            what = "header"
        if case.get("blowup"):
            k = next((i for i, (g, x) in enumerate(zip(got, exp)) if not codec.strict_eq(g, x)), min(len(got), len(exp)))
            return Fail("%s/%s" % (o.name, what), "%s on %d rows (the rows of %r repeated), arguments %r: %d rows out, reference %d; first "
                        "difference at output row %d: %r vs %r" % (o.name, len(tbl) - 1, case["table"], args, len(got), len(exp), k, got[k:k + 1], exp[k:k + 1]))
        return Fail("%s/%s" % (o.name, what), "%s(%r, %r) gave %r, reference %r" % (o.name, tbl, args, got, exp))
    if not codec.strict_eq(src, tbl):
        return Fail(o.name + "/source-mutated", "source changed")
    return None


# ---- repeated field names: every by-name reader must read the same column -----------------------------------------
@st.composite
def dup_case(draw, tier):
    hdr = draw(st.sampled_from([["k", "v", "w", "v"], ["v", "k", "v"], ["k", "v", "v", "w"], ["w", "v", "k", "w", "v"]]))
    tbl = draw(gen.table(hdr, [gen.scalar] * len(hdr), max_rows=5, min_rows=1))
    return {"table": tbl, "name": draw(st.sampled_from([f for f in set(hdr) if hdr.count(f) > 1]))}


def check_dup(case, ctx):
    tbl, f = case["table"], case["name"]
    hdr = tbl[0]
    cols = [i for i, h in enumerate(hdr) if h == f]
    ctx.nontrivial(any(len({codec.dumps(r[i]) for i in cols}) > 1 for r in tbl[1:]))
    T = lambda: codec.snapshot(tbl)  # noqa
    readers = collections.OrderedDict()
    try:
        readers["values"] = list(etl.values(T(), f))
        readers["cut"] = [r[0] for r in etl.data(etl.cut(T(), f))]
        readers["fieldmap-name"] = [r[0] for r in etl.data(etl.fieldmap(T(), collections.OrderedDict([("o", f)])))]
        readers["fieldmap-fn"] = [r[0] for r in etl.data(etl.fieldmap(T(), collections.OrderedDict([("o", (f, lambda v: v))])))]
        readers["fieldmap-rec"] = [r[0] for r in etl.data(etl.fieldmap(T(), collections.OrderedDict([("o", lambda rec: rec[f])])))]
        readers["addfield-rec"] = [r[-1] for r in etl.data(etl.addfield(T(), "zz", lambda rec: rec[f]))]
        readers["records"] = [rec[f] for rec in etl.records(T())]
        readers["rowmap-rec"] = [r[0] for r in etl.data(etl.rowmap(T(), lambda rec: [rec[f]], header=["o"]))]
    except Exception as ex:
        return exc_fail("dupnames", ex)
    base = readers["values"]
    for name, got in readers.items():
        if not codec.strict_eq(list(got), list(base)):
            return Fail("dupnames/%s-disagrees" % name, "field %r of %r read through %s gives %r, through values() %r" % (f, tbl, name, got, base))
    if not any(codec.strict_eq(list(base), [r[i] for r in tbl[1:]]) for i in cols):
        return Fail("dupnames/not-a-column", "values(%r, %r) gave %r, which is none of the columns of that name" % (tbl, f, base))
    return None


# ---- views configured by item assignment: two views of one kind must not share their configuration ------------------
@st.composite
def setitem_case(draw, tier):
    hdr = ["k", "j", "v"]
    t1 = draw(gen.table(hdr, [gen.scalar] * 3, max_rows=4, min_rows=1))
    t2 = draw(gen.table(hdr, [gen.scalar] * 3, max_rows=4, min_rows=1))
    return {"t1": t1, "t2": t2, "kind": draw(st.sampled_from(["fieldmap", "convert"])),
            "f1": draw(st.sampled_from(hdr)), "f2": draw(st.sampled_from(hdr)), "iterate_between": draw(st.booleans())}


def check_setitem(case, ctx):
    t1, t2, f1, f2 = case["t1"], case["t2"], case["f1"], case["f2"]
    ctx.label("kind:" + case["kind"])
    ctx.nontrivial(f1 != f2)
    wrap = lambda v: ("w", v)  # noqa
    try:
        if case["kind"] == "fieldmap":
            v1 = etl.fieldmap(codec.snapshot(t1))
            v1["a"] = f1
            if case["iterate_between"]:
                list(v1)
            v2 = etl.fieldmap(codec.snapshot(t2))
            v2["b"] = (f2, wrap)
            exp1 = [("a",)] + [(r[t1[0].index(f1)],) for r in t1[1:]]
            exp2 = [("b",)] + [(wrap(r[t2[0].index(f2)]),) for r in t2[1:]]
        else:
            v1 = etl.convert(codec.snapshot(t1))
            v1[f1] = wrap
            if case["iterate_between"]:
                list(v1)
            v2 = etl.convert(codec.snapshot(t2))
            v2[f2] = str
            i1, i2 = t1[0].index(f1), t2[0].index(f2)
            exp1 = [tuple(t1[0])] + [tuple(wrap(c) if i == i1 else c for i, c in enumerate(r)) for r in t1[1:]]
            exp2 = [tuple(t2[0])] + [tuple(str(c) if i == i2 else c for i, c in enumerate(r)) for r in t2[1:]]
        got2 = [tuple(r) for r in v2]
        got1 = [tuple(r) for r in v1]
    except Exception as ex:
        return exc_fail("setitem/" + case["kind"], ex)
    if not codec.strict_eq(got2, exp2):
        return Fail("setitem/%s/second-view" % case["kind"], "a second %s view configured by item assignment gave %r, expected %r (a first view "
                    "of the same kind had been given %r)" % (case["kind"], got2, exp2, f1))
    if not codec.strict_eq(got1, exp1):
        return Fail("setitem/%s/first-view" % case["kind"], "the first %s view gave %r, expected %r, after a second one was configured" % (case["kind"], got1, exp1))
    return None


# ---- composition: an operator whose input is the OUTPUT of another operator ------------------------------------------
def chain_case(tier, shard=0, nshards=1):
    return _chain_case(tier, NAMES[shard::nshards] or NAMES)


chain_case.sharded = True


@st.composite
def _chain_case(draw, tier, names):
    c = draw(_case(tier, [n for n in NAMES if not n.startswith("acc-")]))   # (an accessor's output is not a table)
    mid = [list(r) for r in OPS[c["op"]].ref(c["table"], c["args"])]
    c["op2"] = None
    if not mid or not mid[0] or not all(isinstance(f, str) and f for f in mid[0]):
        return c   # (a header the second operator's arguments cannot be drawn for: left out)
    isragged = any(len(r) != len(mid[0]) for r in mid[1:])
    isdup = len(set(mid[0])) < len(mid[0])
    ident = all(f.isidentifier() and not f.startswith("_") for f in mid[0])   # namedtuples need identifier-like names
    allc = [n for n in NAMES if (OPS[n].ragged or not isragged) and (OPS[n].dup or not isdup) and len(mid[0]) >= OPS[n].min_fields
             and (ident or not n.startswith("acc-"))]
    cands = [n for n in allc if n in names] or allc
    if not allc:
        return c
    # (one time in four the same operator twice, with arguments of its own: cut of a cut, convert of a convert ...)
    c["op2"] = c["op"] if (c["op"] in allc and draw(st.integers(0, 3)) == 0) else draw(st.sampled_from(cands))
    c["args2"] = OPS[c["op2"]].args(draw, mid)
    return c


def check_chain(case, ctx):
    if not case.get("op2"):
        return None
    o1, o2 = OPS[case["op"]], OPS[case["op2"]]
    tbl = case["table"]
    mid = [list(r) for r in o1.ref(tbl, case["args"])]
    exp = [tuple(r) if isinstance(r, (list, tuple)) else r for r in o2.ref(mid, case["args2"])]
    ctx.label("first:" + o1.name, "second:" + o2.name)
    ctx.nontrivial(len(tbl) >= 3)
    try:
        res = o2.run(o1.run(codec.snapshot(tbl), case["args"]), case["args2"])
        got = [tuple(r) if isinstance(r, (list, tuple)) else r for r in res]
    except Exception as ex:
        return exc_fail("chain/%s/%s" % (o1.name, o2.name), ex)
    if not codec.strict_eq(got, exp):
        return Fail("chain/%s/%s/rows" % (o1.name, o2.name), "%s(%s(%r, %r), %r) gave %r; the two references composed give %r"
                    % (o2.name, o1.name, tbl, case["args"], case["args2"], got, exp))
    return None


SUBS = [Sub("rowops", check, strategy=case, quick=24000, thorough=400000),
        Sub("chain", check_chain, strategy=chain_case, quick=16000, thorough=200000),
        Sub("setitem", check_setitem, strategy=setitem_case, quick=800, thorough=8000),
        Sub("dupnames", check_dup, strategy=dup_case, quick=1500, thorough=20000)]
KNOWN = {}

# second use of one view object after its sources were edited (shared sub-check, see pv/reuse.py)
from pv import reuse  # noqa: E402
SUBS.append(reuse.sub(ID))
RULE += reuse.RULE

# field names that are not plain str (shared sub-check, see pv/names.py)
from pv import names  # noqa: E402
SUBS.append(names.sub(ID))
RULE += names.RULE

# inputs handed in through neutral petl views (shared sub-check, see pv/upstream.py)
from pv import upstream  # noqa: E402
SUBS.append(upstream.sub(ID))
RULE += upstream.RULE

# the method interface reaches the same functions (shared exhaustive sub-check, see pv/fluent.py)
from pv import fluent  # noqa: E402
SUBS.append(fluent.sub(ID))
RULE += fluent.RULE

# cases at scale (see pv/scale.py)
RULE += scale.RULE
