"""C13 - selections return exactly the satisfying rows; complement is the exact rest."""
import itertools
import operator
import re
from decimal import Decimal

import petl as etl
from hypothesis import strategies as st

from pv import gen, codec, catgen
from pv import scale
from pv.core import Sub, Fail, exc_fail, two_iterators
from pv.order import ref_cmp
from pv.ref import base as R

ID = "C13"
LEVEL = "exploration"
RULE = ("Sub 'selectors': Hypothesis draws a ragged mixed-type table (cells and reference values from one small pool incl. "
        "None, values of other types, nested sequences), a selector with its documented argument forms and complement; "
        "oracle: the input rows filtered, in input order, with the documented predicate (ordered selectors under the "
        "independent ordering, a missing cell read as `missing`). Sub 'partition': select / biselect / search+searchcomplement "
        "(whole row, one field, several fields) / facet (single and compound key) / rowlenselect: selection and complement are an order-preserving partition of the input. Sub 'slices': "
        "rowslice / head / tail / skip over all argument triples incl. None, 0 and beyond the end vs itertools.islice. "
        "Non-trivial = both the selection and its complement are non-empty (slices: table has >=2 rows and the slice is a "
        "proper non-empty subset). Distinct by digest.")
ASSUMPTIONS = [
    "search(field, ...) and selectcontains get rows long enough / container-typed cells (they document nothing about others)",
    "selecteq/selectne/selectin use Python ==; their agreement with the ordering's equivalence is checked on scalars",
    "facet keys are hashable",
]

POOLV = st.one_of(gen.scalar, gen.scalar, gen.scalar, gen.value)
SELECTORS = ["selecteq", "selectne", "selectlt", "selectle", "selectgt", "selectge", "selectrangeopen", "selectrangeopenleft",
             "selectrangeopenright", "selectrangeclosed", "selectin", "selectnotin", "selectnone", "selectnotnone", "selecttrue",
             "selectfalse", "selectis", "selectisnot", "selectisinstance", "selectop", "selectcontains", "select-field",
             "select-row", "select-expr"]
import numbers as _numbers  # noqa: E402
TYPES = {"int": int, "str": str, "numbers": (int, float, Decimal), "none": type(None), "seq": (list, tuple), "object": object,
         "Number": _numbers.Number, "Integral": _numbers.Integral, "bool": bool, "int-float": (int, float)}


@st.composite
def sel_case(draw, tier):
    p = draw(gen.twinned_pool(POOLV, 3, 6))
    # sequences that differ only late: same prefix, then bytes vs text / None vs number / list vs tuple
    base = draw(st.lists(gen.scalar, max_size=2))
    for tail_ in draw(st.lists(st.sampled_from([b"a", "a", None, 1, 1.0, "b", b"b", (), []]), max_size=3)):
        p.append(tuple(base) + (tail_,))
        p.append(list(base) + [tail_])
    pair = None
    if draw(st.booleans()):
        pair = draw(st.sampled_from(gen.SEQ_TWINS + gen.SEQ_NEAR))
        p.extend(pair)
        p.extend(pair)
    cell = st.sampled_from(p)
    nf = draw(st.sampled_from([1, 2, 3]))
    hdr = ["a", "b", "c"][:nf]
    sel = draw(st.sampled_from(SELECTORS))
    contains = sel == "selectcontains"
    if contains:
        cell = st.one_of(st.lists(st.sampled_from(p), max_size=3), st.sampled_from(["", "xay", "b"]), st.lists(st.sampled_from(p), max_size=2).map(tuple))
    tbl = draw(gen.table(hdr, [cell] * nf, max_rows=7 if tier == "quick" else 14, ragged=not contains and draw(st.booleans())))
    c = {"selector": sel, "table": tbl, "field": draw(st.one_of(st.sampled_from(hdr), st.integers(0, nf - 1))),
         # container form of the input; "records": the data rows are petl Record objects (as records() or an upstream
         # selectusingcontext / convert(where=) delivers them), built with the default missing=None
         "form": draw(st.sampled_from(["lists", "lists", "lists", "records", "records"] + catgen.FORMS)),
         # the field given bare, or as a one-element list / tuple (still ONE field: the predicate sees the cell itself)
         "field_form": draw(st.sampled_from(["bare", "bare", "list1", "tuple1"])),
         # the input is the output of another row selection that keeps every row (made with ITS OWN missing value)
         "chain": draw(st.sampled_from([None, None, None, "select-all", "rowlenselect-all", "biselect-all", "selectnotnone-all"])),
         "complement": draw(st.booleans()), "value": draw(st.one_of(st.sampled_from(p), POOLV)),
         "value2": draw(st.one_of(st.sampled_from(p), POOLV))}
    if pair is not None and draw(st.booleans()):
        # compare the cells with one member of the pair (the other member is in the cell pool)
        c["value"] = pair[draw(st.integers(0, 1))]
    if sel in ("selectin", "selectnotin"):
        c["value"] = draw(st.lists(st.sampled_from(p), max_size=3))
    if sel == "selectisinstance":
        c["value"] = draw(st.sampled_from(sorted(TYPES)))
    if sel == "selectop":
        # (no identity operators: the petl table is a copy; lt / ge / contains are not symmetric in their arguments)
        c["value"] = draw(st.sampled_from(["eq", "ne", "lt", "ge", "contains_swapped"]))
    if sel in ("selectis", "selectisnot"):
        # identity is only meaningful for singletons; cells and value are separate copies in the petl table
        c["value"] = draw(st.sampled_from([None, True, False]))
    if sel.startswith("select-"):
        c["missing"] = draw(st.sampled_from([None, "M", None, "M", 0, "", False]))
    if contains:
        c["value"] = draw(st.sampled_from(p + ["x", "a"]))
    c["blowup"] = scale.derive(c, wide=False)
    return c


def _eq(a, b):
    return a == b


def check_sel(case, ctx):
    sel, tbl, field, comp = case["selector"], case["table"], case["field"], case["complement"]
    if case.get("blowup"):
        tbl = scale.apply(tbl, case["blowup"])
        scale.label(ctx, case["blowup"])
    x, y = case["value"], case["value2"]
    hdr = tbl[0]
    fi = field if isinstance(field, int) else hdr.index(field)
    missing = case.get("missing")
    rows = [tuple(r) for r in tbl[1:]]

    def cellv(r):
        return R.cell(r, fi, missing)
    # (a Record answers an index beyond its end with ITS OWN missing value, None here; a short Record row therefore "has"
    #  None there and select's missing= never comes into play - so Record rows are used when that cannot matter)
    if case.get("form") == "records" and (missing is None or all(len(r) >= len(hdr) for r in rows)):
        # the Records were made under OTHER field names (as after a rename / prefixheader downstream of records-bearing
        # views): the current header decides what a name means
        other = [["zz_%s" % f for f in hdr]] + codec.snapshot(tbl)[1:]
        T = [list(hdr)] + list(etl.records(other))
        ctx.label("record-rows")
    elif case.get("form") == "records":
        T = codec.snapshot(tbl)
    else:
        T = catgen.shape(codec.snapshot(tbl), case.get("form", "lists"))
    chain = case.get("chain")
    if chain == "select-all":
        T = etl.select(T, lambda rec: True, missing="UPSTREAM")
    elif chain == "rowlenselect-all":
        T = etl.rowlenselect(T, -1, complement=True)
    elif chain == "biselect-all":
        T = etl.biselect(T, lambda rec: True, missing="UPSTREAM")[0]
    elif chain == "selectnotnone-all":
        T = etl.select(T, "{%s} != 'no such value'" % hdr[0], missing="UPSTREAM")
    if chain:
        ctx.label("chained:" + chain)
    args, kw = (), {"complement": comp}
    if sel in ("selectlt", "selectle", "selectgt", "selectge"):
        sign = {"selectlt": lambda c: c < 0, "selectle": lambda c: c <= 0, "selectgt": lambda c: c > 0, "selectge": lambda c: c >= 0}[sel]
        pred = lambda r: sign(ref_cmp(cellv(r), x))  # noqa
        args = (field, x)
    elif sel.startswith("selectrange"):
        lo = {"selectrangeopen": (True, True), "selectrangeopenleft": (True, False), "selectrangeopenright": (False, True),
              "selectrangeclosed": (False, False)}[sel]

        def pred(r):
            c1, c2 = ref_cmp(cellv(r), x), ref_cmp(cellv(r), y)
            return (c1 >= 0 if lo[0] else c1 > 0) and (c2 <= 0 if lo[1] else c2 < 0)
        args = (field, x, y)
    elif sel in ("selecteq", "selectne"):
        pred = (lambda r: cellv(r) == x) if sel == "selecteq" else (lambda r: cellv(r) != x)
        args = (field, x)
    elif sel in ("selectin", "selectnotin"):
        pred = (lambda r: cellv(r) in x) if sel == "selectin" else (lambda r: cellv(r) not in x)
        args = (field, x)
    elif sel in ("selectnone", "selectnotnone"):
        pred = (lambda r: cellv(r) is None) if sel == "selectnone" else (lambda r: cellv(r) is not None)
        args = (field,)
    elif sel in ("selecttrue", "selectfalse"):
        pred = (lambda r: bool(cellv(r))) if sel == "selecttrue" else (lambda r: not bool(cellv(r)))
        args = (field,)
    elif sel in ("selectis", "selectisnot"):
        pred = (lambda r: cellv(r) is x) if sel == "selectis" else (lambda r: cellv(r) is not x)
        args = (field, x)
    elif sel == "selectisinstance":
        ty = TYPES[x]
        pred = lambda r: isinstance(cellv(r), ty)  # noqa
        args = (field, ty)
    elif sel == "selectop":
        opf = (lambda a_, b_: operator.contains(b_, a_) if isinstance(b_, (list, tuple, str)) and not isinstance(a_, (list, dict)) else False) \
            if x == "contains_swapped" else getattr(operator, x)
        pred = lambda r: opf(cellv(r), y)  # noqa
        args = (field, y, opf)
    elif sel == "selectcontains":
        pred = lambda r: x in cellv(r) if not isinstance(cellv(r), str) or isinstance(x, str) else False  # noqa
        # 'in' on a str cell with a non-str needle raises TypeError: keep needles textual for text cells
        if any(isinstance(cellv(r), str) for r in rows) and not isinstance(x, str):
            return None
        args = (field, x)
    elif sel == "select-field":
        pred = lambda r: ref_cmp(cellv(r), x) <= 0  # noqa
        args = (field, lambda v: ref_cmp(v, x) <= 0)
        kw["missing"] = missing
    elif sel == "select-row":
        pred = lambda r: cellv(r) is not None  # noqa
        fname = hdr[fi]
        args = (lambda rec: rec[fname] is not None,)
        kw["missing"] = missing
    else:
        fname = hdr[fi]
        pred = lambda r: cellv(r) is not None  # noqa
        args = ("{%s} is not None" % fname,)
        kw["missing"] = missing
    ff = case.get("field_form", "bare")
    if ff != "bare" and sel not in ("select-row", "select-expr") and args:
        args = (([args[0]] if ff == "list1" else (args[0],)),) + tuple(args[1:])
        ctx.label("field-form:" + ff)
    name = "select" if sel.startswith("select-") else sel
    try:
        exp = [r for r in rows if bool(pred(r)) != comp]
    except TypeError:
        return None  # the documented predicate itself is undefined on this input (e.g. `in` on an int cell)
    ctx.label("selector:" + sel, "complement" if comp else "plain")
    ctx.nontrivial(0 < len(exp) < len(rows))
    try:
        got = [tuple(r) for r in getattr(etl, name)(T, *args, **kw)]
    except Exception as ex:
        return exc_fail(sel, ex)
    if got[:1] != [tuple(hdr)]:
        return Fail(sel + "/header", "got %r" % (got[:1],))
    if got[1:] != exp:
        return Fail(sel + "/rows", "%s(%r, field=%r, %r, %r, complement=%r, missing=%r) gave %r, reference %r" % (sel, tbl, field, x, y, comp, missing, got[1:], exp))
    return None


# ---- partition laws -------------------------------------------------------------------------------------------
PARTS = ["biselect", "select-complement", "search", "search-field", "search-fields", "facet", "facet-compound", "rowlenselect", "selectusingcontext"]
PATTERNS = ["a", "^a", "x$", "[0-9]", "", "None", "a|b", "^$"]


@st.composite
def part_case(draw, tier):
    p = draw(gen.pool(st.one_of(gen.scalar, st.sampled_from(["a", "xa", "b1", ""])), 3, 5))
    cell = st.sampled_from(p)
    nf = draw(st.sampled_from([2, 1, 3]))
    hdr = ["a", "b", "c"][:nf]
    kind = draw(st.sampled_from(PARTS))
    if kind in ("search-fields", "facet-compound"):
        nf = draw(st.sampled_from([2, 3]))
        hdr = ["a", "b", "c"][:nf]
    ragged = kind not in ("search-field", "search-fields", "facet-compound") and draw(st.booleans())
    rkw = {}
    if kind == "search" and draw(st.booleans()):
        # whole-row search: "anywhere in the row" includes cells beyond the header - make long rows common
        ragged, rkw = True, {"ragged_odds": 2, "ragged_min": nf}
    tbl = draw(gen.table(hdr, [cell] * nf, max_rows=7 if tier == "quick" else 14, ragged=ragged,
                         extra=st.sampled_from(["a", "xa", "7", "x", None, "A"]), **rkw))   # surplus cells the patterns can match
    return _scaled({"manykeys": draw(st.booleans()),
            "kind": kind, "table": tbl, "field": draw(st.sampled_from(hdr)), "pattern": draw(st.sampled_from(PATTERNS)),
            "fields": draw(st.permutations(hdr))[:2],
            "n": draw(st.integers(0, nf + 1)), "flags": draw(st.sampled_from([0, re.I]))})


def _scaled(c):
    c["blowup"] = scale.derive(c, wide=False)
    return c


def _is_partition(rows, a, b):
    """a and b are subsequences of rows and together use every row exactly once."""
    ia = ib = 0
    for r in rows:
        if ia < len(a) and a[ia] == r and (ib >= len(b) or b[ib] != r or True):
            # prefer a; fall back to b when a does not match
            ia += 1
        elif ib < len(b) and b[ib] == r:
            ib += 1
        else:
            return False
    return ia == len(a) and ib == len(b)


def check_part(case, ctx):
    kind, tbl, field = case["kind"], case["table"], case["field"]
    if case.get("blowup"):
        tbl = scale.apply(tbl, case["blowup"])
        scale.label(ctx, case["blowup"])
        if case.get("manykeys") and kind in ("facet", "facet-compound"):
            # many distinct key values (more than any per-key structure is likely to be sized for)
            k = list(tbl[0]).index(field)
            for i, r in enumerate(tbl[1:]):
                if len(r) > k:
                    r[k] = i % 70
            ctx.label("many-distinct-keys")
    hdr = tuple(tbl[0])
    rows = [tuple(r) for r in tbl[1:]]
    T = catgen.shape(codec.snapshot(tbl), case.get("form", "lists"))
    fi = tbl[0].index(field)
    ctx.label("kind:" + kind)
    try:
        if kind in ("biselect", "select-complement"):
            pr = lambda rec: rec[field] is not None  # noqa
            if kind == "biselect":
                t1, t2 = etl.biselect(T, pr)
            else:
                t1, t2 = etl.select(T, pr), etl.select(T, pr, complement=True)
            a, b = [tuple(r) for r in t1], [tuple(r) for r in t2]
            exp_a = [r for r in rows if R.cell(r, fi) is not None]
            exp_b = [r for r in rows if R.cell(r, fi) is None]
        elif kind in ("search", "search-field", "search-fields"):
            prog = re.compile(case["pattern"], case["flags"])
            args = (case["pattern"],) if kind == "search" else (field, case["pattern"])
            if kind == "search-fields":
                args = (tuple(case["fields"]), case["pattern"])
                fis = [tbl[0].index(f) for f in case["fields"]]
            a = [tuple(r) for r in etl.search(T, *args, flags=case["flags"])]
            b = [tuple(r) for r in etl.searchcomplement(T, *args, flags=case["flags"])]
            if kind == "search":
                test = lambda r: any(prog.search(str(v)) for v in r)  # noqa
            elif kind == "search-fields":
                test = lambda r: any(prog.search(str(r[i])) for i in fis)  # noqa
            else:
                test = lambda r: bool(prog.search(str(r[fi])))  # noqa
            exp_a = [r for r in rows if test(r)]
            exp_b = [r for r in rows if not test(r)]
        elif kind == "rowlenselect":
            n = case["n"]
            a = [tuple(r) for r in etl.rowlenselect(T, n)]
            b = [tuple(r) for r in etl.rowlenselect(T, n, complement=True)]
            exp_a = [r for r in rows if len(r) == n]
            exp_b = [r for r in rows if len(r) != n]
        elif kind == "selectusingcontext":
            a = [tuple(r) for r in etl.selectusingcontext(T, lambda p, c, n: p is None or n is None or c[0] == p[0])]
            exp_a = [r for i, r in enumerate(rows) if i == 0 or i == len(rows) - 1 or R.cell(r, 0) == R.cell(rows[i - 1], 0)]
            b, exp_b = [hdr], []
        else:
            try:
                hash(tuple(R.cell(r, fi) for r in rows))
            except TypeError:
                return None
            if kind == "facet-compound":
                fis = [tbl[0].index(x) for x in case["fields"]]
                kof = lambda r: tuple(r[i] for i in fis)  # noqa
                f = etl.facet(T, tuple(case["fields"]))
            else:
                kof = lambda r: R.cell(r, fi)  # noqa   (a row too short for the key field has the key None)
                f = etl.facet(T, field)
            keys = []
            for r in rows:
                if kof(r) not in keys:
                    keys.append(kof(r))
            if set(f.keys()) != set(keys) or len(f) != len(keys):
                return Fail("facet/keys", "facet keys %r, distinct values %r" % (list(f.keys()), keys))
            total = []
            for k in keys:
                part = [tuple(r) for r in f[k]]
                exp = [r for r in rows if kof(r) == k]
                if part != [hdr] + exp:
                    return Fail("facet/rows", "facet[%r] gave %r expected %r" % (k, part, exp))
                total.extend(part[1:])
            ctx.nontrivial(len(keys) >= 2)
            if sorted(map(repr, total)) != sorted(map(repr, rows)):
                return Fail("facet/not-a-partition", "facets %r do not reassemble %r" % (total, rows))
            return None
    except Exception as ex:
        return exc_fail(kind, ex)
    if a[:1] != [hdr] or b[:1] != [hdr]:
        return Fail(kind + "/header", "%r / %r" % (a[:1], b[:1]))
    ctx.nontrivial(len(exp_a) > 0 and (len(exp_b) > 0 or kind == "selectusingcontext") and len(rows) >= 2)
    if a[1:] != exp_a:
        return Fail(kind + "/selection", "%s on %r gave %r, reference %r" % (kind, tbl, a[1:], exp_a))
    if b[1:] != exp_b:
        return Fail(kind + "/complement", "%s complement on %r gave %r, reference %r" % (kind, tbl, b[1:], exp_b))
    return None


# ---- slices -------------------------------------------------------------------------------------------------------
def slice_cases(tier):
    vals = [None, 0, 1, 2, 3, 5, 7]
    steps = [None, 1, 2, 3]
    for n in (0, 1, 3, 5):
        for start in vals:
            for stop in vals:
                for step in steps:
                    yield {"fn": "rowslice3", "n": n, "args": [start, stop, step]}
            for stop in vals:
                yield {"fn": "rowslice2", "n": n, "args": [start, stop]}
            yield {"fn": "rowslice1", "n": n, "args": [start]}
        for k in (0, 1, 2, 3, 5, 7):
            yield {"fn": "head", "n": n, "args": [k]}
            yield {"fn": "tail", "n": n, "args": [k]}
            yield {"fn": "skip", "n": n, "args": [k]}
        yield {"fn": "rowslice0", "n": n, "args": []}
        yield {"fn": "head-default", "n": n, "args": []}
        yield {"fn": "tail-default", "n": n, "args": []}
    # at scale: positions around 1000 / 1024 / 2048 on tables of that size
    big = [999, 1000, 1001, 1024, 1025, 2048]
    for n in (1001, 1500, 2049):
        for k in big + [n - 1, n, n + 1]:
            yield {"fn": "head", "n": n, "args": [k]}
            yield {"fn": "tail", "n": n, "args": [k]}
            yield {"fn": "skip", "n": n, "args": [k]}
            yield {"fn": "rowslice1", "n": n, "args": [k]}
            yield {"fn": "rowslice2", "n": n, "args": [k - 999 if k > 999 else 0, k]}
            yield {"fn": "rowslice3", "n": n, "args": [1, k, 7]}


class _Diverged(Exception):
    pass


def _rows3(view):
    """Rows of a single pass; two interleaved iterators over the same view (one a row ahead) must see the same."""
    got = [tuple(r) for r in view]
    ra, rb = two_iterators(view, lag=1)
    if ra != got or rb != got:
        raise _Diverged("a single pass gave %r, two interleaved iterators over the same view %r and %r" % (got, ra, rb))
    return got


def check_slice(case, ctx):
    n, fn, args = case["n"], case["fn"], case["args"]
    tbl = [["a", "b"]] + [[i, "r%d" % i] if i % 2 else [i] for i in range(n)]
    rows = [tuple(r) for r in tbl[1:]]
    hdr = ("a", "b")
    try:
        if fn.startswith("rowslice"):
            if fn == "rowslice1" and args[0] is None:
                exp = rows
            else:
                exp = list(itertools.islice(rows, *args)) if args else rows
            got = _rows3(etl.rowslice(tbl, *args))
        elif fn == "head":
            exp, got = rows[:args[0]], _rows3(etl.head(tbl, args[0]))
        elif fn == "head-default":
            exp, got = rows[:5], _rows3(etl.head(tbl))
        elif fn == "tail":
            exp, got = (rows[-args[0]:] if args[0] else []), _rows3(etl.tail(tbl, args[0]))
        elif fn == "tail-default":
            exp, got = rows[-5:], _rows3(etl.tail(tbl))
        else:
            allrows = [hdr] + rows
            exp_all = allrows[args[0]:]
            got = _rows3(etl.skip(tbl, args[0]))
            ctx.nontrivial(n >= 2 and 0 < len(exp_all) < len(allrows))
            if got != exp_all:
                return Fail("skip/rows", "skip(%d) on %d rows gave %.300r expected %.300r" % (args[0], n, got, exp_all))
            return None
    except _Diverged as ex:
        return Fail(fn.split("-")[0].rstrip("0123") + "/iterators-diverge", str(ex))
    except Exception as ex:
        return exc_fail(fn, ex)
    ctx.label("fn:" + fn)
    ctx.nontrivial(n >= 2 and 0 < len(exp) < n)
    if got[:1] != [hdr] or got[1:] != exp:
        if n > 100:
            return Fail(fn.split("-")[0].rstrip("0123") + "/rows", "%s%r on %d rows gave %d rows starting %r, expected %d starting %r"
                        % (fn, tuple(args), n, len(got) - 1, got[1:3], len(exp), exp[:2]))
        return Fail(fn.split("-")[0].rstrip("0123") + "/rows", "%s%r on %d rows gave %r expected %r" % (fn, tuple(args), n, got[1:], exp))
    return None


SUBS = [
    Sub("selectors", check_sel, strategy=sel_case, quick=16000, thorough=300000),
    Sub("partition", check_part, strategy=part_case, quick=6000, thorough=100000),
    Sub("slices", check_slice, enumerate=slice_cases),
]
KNOWN = {}

# second use of one view object after its sources were edited (shared sub-check, see pv/reuse.py)
from pv import reuse  # noqa: E402
SUBS.append(reuse.sub(ID))
RULE += reuse.RULE

# field names that are not plain str (shared sub-check, see pv/names.py)
from pv import names  # noqa: E402
SUBS.append(names.sub(ID))
RULE += names.RULE

# inputs handed in through neutral petl views (shared sub-check, see pv/upstream.py)
from pv import upstream  # noqa: E402
SUBS.append(upstream.sub(ID))
RULE += upstream.RULE

# the method interface reaches the same functions (shared exhaustive sub-check, see pv/fluent.py)
from pv import fluent  # noqa: E402
SUBS.append(fluent.sub(ID))
RULE += fluent.RULE

# cases at scale (see pv/scale.py)
RULE += scale.RULE
