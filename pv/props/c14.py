"""C14 - reshape operators are mutually inverse and cell-exact."""
import collections
import re

import petl as etl
from hypothesis import strategies as st

from pv import gen, codec
from pv import scale
from pv import catgen
from pv.core import Sub, Fail, exc_fail, two_iterators
from pv.order import ref_cmp, ref_key
from pv.ref import base as R

ID = "C14"
LEVEL = "exploration"
RULE = ("Hypothesis draws a rectangular table with distinct text field names and, per operator, its arguments: every split "
        "into key vs variable fields (keys unique under ==, possibly None / mixed-type / compound), periods n, field by name "
        "or index, include_original, missing/fill. Oracles: recast(melt(t,key),key) == (key fields + sorted variable fields, "
        "rows sorted by key under the independent ordering); recast of molten data written directly (sparse, repeated (key, "
        "variable) pairs, ignored fields, key given / inferred, variables sampled / given as a dict, reducers, missing) == one "
        "row per key group in key order with, per variable, missing / the value / reducer-or-list of the group's values; melt emits exactly nrows x nvars rows in row-major order; "
        "transpose(transpose(t)) == t; unflatten(flatten(t), n) == data rows of t; pivot cell (r,c) = aggregate of exactly the "
        "rows carrying that pair (dictionary reference); unpack/unpackdict/capture/split/splitdown vs references with all other "
        "fields unchanged; fromdicts(dicts(t)) == t and fromcolumns(columns(t)) == t. Non-trivial = >=2 data rows and >=2 "
        "fields (pivot: a sparse cell; melt/recast: >=2 variable fields). Distinct by digest.")
ASSUMPTIONS = [
    "rectangular tables with distinct string field names (the statement's domain)",
    "melt->recast and fromdicts(dicts(t)) need >=1 data row (field names travel in the rows)",
    "pivot column values are mutually comparable (strings or ints), its f1 values hashable",
    "capture/split/splitdown operate on text cells",
]

NAMES = ["k", "j", "a", "b", "c", "d"]
OPS = ["melt_recast", "melt", "transpose", "flatten", "pivot", "unpack", "unpackdict", "capture", "split", "splitdown",
       "dicts", "columns", "recast"]
KEYCELL = st.one_of(gen.keyish, gen.keyish, gen.hvalue)
TEXT = st.sampled_from(["ab-12", "x-", "-", "", "a", "ab-12-z", "q1", "12", "AB-1a", "aXbxc", "A"])


@st.composite
def case(draw, tier):
    op = draw(st.sampled_from(OPS))
    maxrows = 5 if tier == "quick" else 10
    nf = draw(st.sampled_from([3, 2, 4, 1]))
    hdr = draw(st.permutations(NAMES))[:nf]
    c = {"op": op}
    if op in ("melt_recast", "melt"):
        nk = draw(st.integers(1, max(1, nf - 1))) if nf > 1 else 1
        kidx = sorted(draw(st.lists(st.integers(0, nf - 1), min_size=nk, max_size=nk, unique=True)))
        p = draw(gen.pool(KEYCELL, 2, 6))
        n = draw(gen.sizes(1 if op == "melt_recast" else 0, maxrows))
        rows, seen = [], []
        for i in range(n):
            r = [draw(st.one_of(st.sampled_from(p), st.integers(0, 9))) for _ in range(nf)]
            kv = tuple(r[j] for j in kidx)
            if op == "melt_recast":
                # unique keys under ==: re-draw the last key cell as a fresh int when the key repeats
                if any(ref_cmp(kv, s) == 0 or kv == s for s in seen):
                    r[kidx[-1]] = 100 + i
                    kv = tuple(r[j] for j in kidx)
                seen.append(kv)
            rows.append(r)
        c["table"] = [list(hdr)] + rows
        c["key"] = [hdr[j] for j in kidx]
        c["keyform"] = draw(st.sampled_from(["names", "indices", "single"]))
        c["recast_missing"] = draw(st.sampled_from([None, None, "NA", 0]))
        c["variables_given"] = draw(st.booleans())
        c["samplesize"] = draw(st.sampled_from([None, None, "exact", "plus1"]))
        # variables= as a proper, re-ordered subset of the non-key fields (positions in the list of non-key fields), and
        # custom names for the two molten fields
        nvar = nf - len(kidx)
        c["var_subset"] = draw(st.lists(st.integers(0, nvar - 1), min_size=1, max_size=nvar, unique=True)) if (nvar >= 2 and draw(st.integers(0, 2)) == 0) else None
        c["molten_names"] = draw(st.sampled_from([None, None, ["var", "val"]]))
    elif op in ("transpose", "flatten", "dicts", "columns"):
        cell = st.one_of(gen.scalar, gen.value)
        c["table"] = draw(gen.table(list(hdr), [cell] * nf, max_rows=maxrows, min_rows=1 if op == "dicts" else 0))
        c["missing"] = draw(st.sampled_from([None, "M", None, "M", 0, "", False]))
        c["period_delta"] = draw(st.sampled_from([0, 0, 1, -1]))
    elif op == "recast":
        # molten data written directly: sparse (not every key has every variable), repeated (key, variable) pairs,
        # fields that are neither key nor variable nor value, variables that first occur late
        nk = draw(st.sampled_from([1, 2, 1]))
        mn = draw(st.sampled_from([["variable", "value"], ["variable", "value"], ["vars", "vals"]]))
        keyn = ["k1", "k2"][:nk]
        hdr = draw(st.permutations(keyn + mn))
        kp = draw(gen.pool(KEYCELL, 2, 4))
        vp = draw(st.lists(st.sampled_from(["age", "gender", "w", "", "a b"]), min_size=1, max_size=3, unique=True))
        n = draw(gen.sizes(0, maxrows + 3))
        cols = {"k1": st.sampled_from(kp), "k2": st.sampled_from(kp), mn[0]: st.sampled_from(vp), mn[1]: st.integers(0, 9)}
        c["table"] = [list(hdr)] + [[draw(cols[f]) for f in hdr] for _ in range(n)]
        c["key"] = keyn
        c["molten_names"] = mn
        c["keyform"] = draw(st.sampled_from(["names", "none", "single", "subset"]))
        c["reducers"] = draw(st.sampled_from([None, None, {"age": "sum"}, {"age": "max", "w": "len", "gender": "sum", "": "min"}]))
        c["missing"] = draw(st.sampled_from([None, "NA", 0]))
        c["samplesize"] = draw(st.one_of(st.none(), st.none(), st.integers(1, max(1, n))))
        c["vardict"] = draw(st.permutations(vp + ["absent"]))[:draw(st.integers(1, len(vp) + 1))] if draw(st.integers(0, 3)) == 0 else None
    elif op == "pivot":
        hdr = ["r", "c", "v"] + list(draw(st.lists(st.sampled_from(["x", "y"]), max_size=1)))
        hdr = draw(st.permutations(hdr))
        rp = draw(gen.pool(st.one_of(gen.keyish, st.integers(0, 3)), 1, 3))
        cp = draw(st.one_of(st.lists(st.sampled_from(["p", "q", "r", ""]), min_size=1, max_size=3, unique=True),
                            st.lists(st.integers(0, 5), min_size=1, max_size=3, unique=True)))
        cols = {"r": st.sampled_from(rp), "c": st.sampled_from(cp), "v": st.integers(0, 9), "x": st.integers(0, 2), "y": st.none()}
        c["table"] = draw(gen.table(list(hdr), [cols[f] for f in hdr], max_rows=maxrows + 2))
        c["agg"] = draw(st.sampled_from(["sum", "list", "len"]))
        # the input may itself be a sort view - on the row field only, on both, on the column field, descending
        c["upstream"] = draw(st.sampled_from([None, None, None, "r", "r-tuple", "rc", "c", "r-desc"]))
        c["missing"] = draw(st.sampled_from([None, "M", None, "M", 0, "", False]))
    else:
        fi = draw(st.integers(0, nf - 1))
        other = st.one_of(gen.scalar, TEXT)
        if op == "unpack":
            target = st.one_of(st.lists(st.integers(0, 5), max_size=4), st.lists(st.integers(0, 5), max_size=4).map(tuple), st.text(alphabet="ab", max_size=3))
            c["newfields"] = draw(st.sampled_from([["p", "q"], ["p"], 2, 3, None]))
        elif op == "unpackdict":
            target = st.one_of(st.dictionaries(st.sampled_from(["p", "q", "z"]), st.integers(0, 5), max_size=3), st.none(), st.integers(0, 3))
            c["keys"] = draw(st.sampled_from([None, ["p", "q"], ["q"], ["nokey"]]))
            c["samplesize"] = draw(st.sampled_from([1000, 1, 2]))
        else:
            target = TEXT
            c["pattern"] = draw(st.sampled_from(["-", "(\\w*)-(\\d*)", "[a-z]", "1", "x", "a(b?)"]))
            c["flags"] = draw(st.sampled_from([0, 0, re.I]))
            c["maxsplit"] = draw(st.sampled_from([0, 1]))
            c["newfields"] = draw(st.sampled_from([["p", "q"], None]))
            c["fill"] = draw(st.sampled_from([["", ""], ["F", None]]))
        cols = [target if i == fi else other for i in range(nf)]
        c["table"] = draw(gen.table(list(hdr), cols, max_rows=maxrows))
        c["field"] = draw(st.sampled_from([hdr[fi], fi]))
        c["include_original"] = draw(st.booleans())
        c["missing"] = draw(st.sampled_from([None, "M", None, "M", 0, "", False]))
    # one case in ten at scale: the data rows repeated past the sizes small examples never reach (100 fields after a
    # transpose, a 1000-row sample, a 2048-row buffer); the reference is computed on the big table itself
    if op not in ("melt_recast",) and len(c["table"]) > 1:
        b = scale.derive(c, sizes=[101, 130, 257, 1001, 1025, 2049] if op != "pivot" else [101, 257, 1001], wide=False, tier=tier)
        if b:
            c["blowup"] = b
    return c


def _T(rows):
    return [tuple(r) for r in rows]


def check(case, ctx):
    op, tbl = case["op"], case["table"]
    if case.get("blowup") and len(tbl) > 1:
        tbl = scale.apply(tbl, case["blowup"])
        scale.label(ctx, case["blowup"])
    hdr = list(tbl[0])
    rows = _T(tbl[1:])
    nf = len(hdr)
    T = codec.snapshot(tbl)
    ctx.label("op:" + op)
    ctx.nontrivial(len(rows) >= 2 and nf >= 2)

    def fail(kind, got, exp):
        if case.get("blowup"):
            got_, exp_ = (got, exp) if isinstance(got, list) and isinstance(exp, list) else ([got], [exp])
            k = next((i for i, (g, x) in enumerate(zip(got_, exp_)) if not codec.strict_eq(g, x)), min(len(got_), len(exp_)))
            return Fail("%s/%s" % (op, kind), "%s on %d rows (the rows of %r repeated) (%r): %d items out, reference %d; first difference at "
                        "item %d: %.300r vs %.300r" % (op, len(tbl) - 1, case["table"], {k_: v for k_, v in case.items() if k_ not in ("table", "op")},
                                                   len(got_), len(exp_), k, got_[k:k + 1], exp_[k:k + 1]))
        return Fail("%s/%s" % (op, kind), "%s on %r (%r) gave %r, reference %r" % (op, tbl, {k: v for k, v in case.items() if k not in ("table", "op")}, got, exp))
    try:
        if op in ("melt_recast", "melt"):
            key = case["key"]
            kidx = [hdr.index(f) for f in key]
            vidx = [i for i in range(nf) if i not in kidx]
            form = case["keyform"]
            karg = key if form == "names" else kidx if form == "indices" else (key[0] if len(key) == 1 else key)
            kw = {"key": karg}
            if case.get("var_subset"):
                vidx = [vidx[j] for j in case["var_subset"] if j < len(vidx)]
                kw["variables"] = [hdr[i] for i in vidx]
                ctx.label("variables-subset")
            elif case["variables_given"] and vidx:
                kw["variables"] = [hdr[i] for i in vidx]
            mn = case.get("molten_names")
            nkw = {"variablefield": mn[0], "valuefield": mn[1]} if mn else {}
            mn = mn or ["variable", "value"]
            ctx.nontrivial(len(rows) >= 2 and len(vidx) >= 2)
            molten = _T(etl.melt(T, **dict(kw, **nkw)))
            exp_m = [tuple(key) + tuple(mn)] + [tuple(r[i] for i in kidx) + (hdr[v], r[v]) for r in rows for v in vidx]
            # exactly one row per (row, variable) cell: a multiset statement; the header is exact
            if not codec.strict_eq(molten[:1], exp_m[:1]) or not R.same_multiset(molten[1:], exp_m[1:]) or \
                    sorted(map(codec.dumps, molten[1:])) != sorted(map(codec.dumps, exp_m[1:])):
                return fail("melt", molten, exp_m)
            if len(molten) - 1 != len(rows) * len(vidx):
                return fail("melt-count", len(molten) - 1, len(rows) * len(vidx))
            if op == "melt_recast" and vidx:
                rkw = {} if case.get("recast_missing") is None else {"missing": case["recast_missing"]}
                # the variables are discovered from a sample of the molten rows: melt emits them row by row, so the first
                # len(vidx) molten rows name them all - a sample of exactly that size (or one more) must be enough
                if case.get("samplesize") in ("exact", "plus1"):
                    rkw["samplesize"] = len(vidx) + (1 if case["samplesize"] == "plus1" else 0)
                    ctx.label("samplesize:" + case["samplesize"])
                # every (key, variable) pair has exactly one value - None included - so `missing` must never be used
                back = _T(etl.recast(molten, key=key if len(key) > 1 else key[0], **dict(rkw, **nkw)))
                vsorted = sorted(vidx, key=lambda i: hdr[i])
                srt = sorted(rows, key=lambda r: ref_key(R.keyof(r, kidx)))
                exp_b = [tuple(key) + tuple(hdr[i] for i in vsorted)] + [tuple(r[i] for i in kidx) + tuple(r[i] for i in vsorted) for r in srt]
                if not codec.strict_eq(back, exp_b):
                    return fail("recast", back, exp_b)
        elif op == "recast":
            mn = case["molten_names"]
            key = list(case["key"])
            form = case["keyform"]
            if form == "subset" and len(key) == 2:
                key = key[:1]
            kw = {}
            if mn != ["variable", "value"] or len(rows) % 2:
                kw.update(variablefield=mn[0], valuefield=mn[1])
            if form == "none":
                key = [f for f in hdr if f not in mn]      # documented: every field that is not variable / value
            else:
                kw["key"] = key[0] if (form == "single" and len(key) == 1) else key
            vi, xi = hdr.index(mn[0]), hdr.index(mn[1])
            if case.get("vardict"):
                variables = list(case["vardict"])
                kw["variablefield"], kw["valuefield"] = {mn[0]: variables}, mn[1]
                ctx.label("variables-given")
            else:
                ss = case.get("samplesize")
                if ss is not None:
                    kw["samplesize"] = ss
                    ctx.label("samplesize")
                # (documented: the variables are discovered from the first `samplesize` rows, 1000 by default)
                variables = sorted(set(r[vi] for r in rows[:1000 if ss is None else ss]))
            RED = {"sum": sum, "max": max, "len": len, "min": min}
            red = dict((k, RED[v]) for k, v in (case.get("reducers") or {}).items())
            if case.get("reducers"):
                kw["reducers"] = red
            if case.get("missing") is not None:
                kw["missing"] = case["missing"]
            got = _T(etl.recast(T, **kw))
            kidx = [hdr.index(f) for f in key]
            exp = [tuple(key) + tuple(variables)]
            sparse = repeated = False
            for _, grp in R.ref_groups([hdr] + [list(r) for r in rows], key):
                out = [grp[0][i] for i in kidx]
                for var in variables:
                    vals = [r[xi] for r in grp if r[vi] == var]
                    if not vals:
                        sparse = True
                        out.append(case.get("missing"))
                    elif len(vals) == 1:
                        out.append(vals[0])
                    else:
                        repeated = True
                        out.append(red.get(var, list)(vals))
                exp.append(tuple(out))
            ctx.label("sparse" if sparse else "dense", "repeated" if repeated else "single-valued")
            ctx.nontrivial(len(exp) >= 3 and len(variables) >= 2 and (sparse or repeated))
            if not codec.strict_eq(got, exp):
                return fail("recast", got, exp)
        elif op == "transpose":
            tt = _T(etl.transpose(etl.transpose(T)))
            exp = [tuple(hdr)] + rows
            if not codec.strict_eq(tt, exp):
                return fail("involution", tt, exp)
            once = _T(etl.transpose(T))
            exp1 = [tuple([hdr[i]] + [r[i] for r in rows]) for i in range(nf)]
            if not codec.strict_eq(once, exp1):
                return fail("transpose", once, exp1)
        elif op == "flatten":
            flat = list(etl.flatten(T))
            expf = [c for r in rows for c in r]
            if not codec.strict_eq(flat, expf):
                return fail("flatten", flat, expf)
            n = max(1, nf + case["period_delta"])
            un = _T(etl.unflatten(flat, n, missing=case["missing"]))
            chunks = [tuple(expf[i:i + n]) for i in range(0, len(expf), n)]
            if chunks and len(chunks[-1]) < n:
                chunks[-1] = chunks[-1] + (case["missing"],) * (n - len(chunks[-1]))
            exp = [tuple("f%d" % i for i in range(n))] + chunks
            if not codec.strict_eq(un, exp):
                return fail("unflatten", un, exp)
            if n == nf and not codec.strict_eq(un[1:], rows):
                return fail("roundtrip", un[1:], rows)
            # unflatten from a table field
            col = [["v"]] + [[c] for c in expf]
            un2 = _T(etl.unflatten(col, "v", n, missing=case["missing"]))
            if not codec.strict_eq(un2, exp):
                return fail("unflatten-field", un2, exp)
        elif op == "pivot":
            agg = {"sum": sum, "list": list, "len": len}[case["agg"]]
            ri, ci, vi = hdr.index("r"), hdr.index("c"), hdr.index("v")
            up = case.get("upstream")
            if up:
                ukey = {"r": "r", "r-tuple": ("r",), "rc": ("r", "c"), "c": "c", "r-desc": "r"}[up]
                T = etl.sort(T, ukey, reverse=up == "r-desc")
                rows = _T(R.ref_sort([hdr] + [list(r) for r in rows], ukey, up == "r-desc")[1:])
                ctx.label("pivot-of-sortview:" + up)
            got = _T(etl.pivot(T, "r", "c", "v", agg, missing=case["missing"]))
            cvals = sorted(set(r[ci] for r in rows))
            groups = R.ref_groups([hdr] + [list(r) for r in rows], "r")
            exp = [("r",) + tuple(cvals)]
            sparse = False
            for k, g in groups:
                row = [k]
                for cv in cvals:
                    vals = [r[vi] for r in g if r[ci] == cv]
                    if vals:
                        # rows of one (r, c) pair in (r, c)-sorted order keep input order (stable sort)
                        row.append(agg(vals))
                    else:
                        sparse = True
                        row.append(case["missing"])
                exp.append(tuple(row))
            ctx.nontrivial(sparse and len(groups) >= 2)
            # cell (r, c) is what the statement is about: compare the cell map, not the layout order
            def cellmap(t):
                cols = list(t[0][1:])
                m = {}
                for row in t[1:]:
                    if len(row) != len(cols) + 1:
                        return None
                    for c_, v in zip(cols, row[1:]):
                        if (row[0], c_) in m:
                            return None
                        m[(row[0], c_)] = v
                return m
            gm, em = cellmap(got), cellmap(exp)
            if not got or got[0][:1] != ("r",) or gm is None or gm != em or sorted(map(codec.dumps, gm.values())) != sorted(map(codec.dumps, em.values())):
                return fail("cells", got, exp)
        elif op == "unpack":
            f, inc, missing = case["field"], case["include_original"], case["missing"]
            fi = f if isinstance(f, int) else hdr.index(f)
            nfl = case["newfields"]
            kw = {"include_original": inc, "missing": missing}
            got = _T(etl.unpack(T, f, nfl, **kw))
            names = list(nfl) if isinstance(nfl, list) else ["%s%d" % (hdr[fi], i + 1) for i in range(nfl)] if isinstance(nfl, int) else []
            n = len(names)
            base = [i for i in range(nf) if inc or i != fi]
            exp = [tuple(hdr[i] for i in base) + tuple(names)]
            for r in rows:
                v = r[fi]
                new = list(v[:n]) + [missing] * (n - len(v)) if n else []
                exp.append(tuple(r[i] for i in base) + tuple(new))
            if not codec.strict_eq(got, exp):
                return fail("rows", got, exp)
        elif op == "unpackdict":
            f, inc, missing = case["field"], case["include_original"], case["missing"]
            if isinstance(f, int):
                f = hdr[f]
            fi = hdr.index(f)
            keys = case["keys"]
            got = _T(etl.unpackdict(T, f, keys=keys, includeoriginal=inc, samplesize=case["samplesize"], missing=missing))
            if keys is None:
                ks = set()
                for r in rows[:case["samplesize"]]:
                    if isinstance(r[fi], dict):
                        ks |= set(r[fi].keys())
                keys = sorted(ks)
            base = [i for i in range(nf) if inc or i != fi]
            exp = [tuple(hdr[i] for i in base) + tuple(keys)]
            for r in rows:
                d = r[fi]
                exp.append(tuple(r[i] for i in base) + tuple(d[k] if isinstance(d, dict) and k in d else missing for k in keys))
            if not codec.strict_eq(got, exp):
                return fail("rows", got, exp)
        elif op in ("capture", "split"):
            f, inc = case["field"], case["include_original"]
            fi = f if isinstance(f, int) else hdr.index(f)
            prog = re.compile(case["pattern"], case.get("flags", 0))
            nfl = case["newfields"]
            base = [i for i in range(nf) if inc or i != fi]
            exp = [tuple(hdr[i] for i in base) + tuple(nfl or [])]
            if op == "capture":
                got = _T(etl.capture(T, f, case["pattern"], nfl, include_original=inc, fill=case["fill"], flags=case.get("flags", 0)))
                for r in rows:
                    m = prog.search(r[fi])
                    exp.append(tuple(r[i] for i in base) + (tuple(m.groups()) if m else tuple(case["fill"])))
            else:
                got = _T(etl.split(T, f, case["pattern"], nfl, include_original=inc, maxsplit=case["maxsplit"], flags=case.get("flags", 0)))
                for r in rows:
                    exp.append(tuple(r[i] for i in base) + tuple(prog.split(r[fi], case["maxsplit"])))
            if not codec.strict_eq(got, exp):
                return fail("rows", got, exp)
        elif op == "splitdown":
            f = case["field"]
            fi = f if isinstance(f, int) else hdr.index(f)
            prog = re.compile(case["pattern"], case.get("flags", 0))
            got = _T(etl.splitdown(T, f, case["pattern"], maxsplit=case["maxsplit"], flags=case.get("flags", 0)))
            exp = [tuple(hdr)]
            for r in rows:
                for v in prog.split(r[fi], case["maxsplit"]):
                    exp.append(tuple(v if i == fi else r[i] for i in range(nf)))
            if not codec.strict_eq(got, exp):
                return fail("rows", got, exp)
        elif op == "dicts":
            ds = list(etl.dicts(T))
            back = _T(etl.fromdicts(ds))
            exp = [tuple(hdr)] + rows
            if not codec.strict_eq(back, exp):
                return fail("fromdicts(dicts)", back, exp)
            back2 = _T(etl.fromdicts(iter(list(ds)), header=hdr))
            if back2 != exp or _T(etl.fromdicts(list(ds), header=hdr)) != exp:
                return fail("fromdicts(dicts, header)", back2, exp)
            # re-iterable containers of dicts that are neither list nor tuple (the dicts() view itself, an object with only
            # __iter__), with an explicit header, iterated twice
            for cname, cont in (("dicts() view", etl.dicts(T)), ("__iter__-only container", catgen.IterOnly(list(ds)))):
                cv = etl.fromdicts(cont, header=tuple(hdr))
                for pno in (1, 2):
                    got = _T(cv)
                    if got != exp:
                        return fail("fromdicts(%s, header=...), pass %d" % (cname, pno), got, exp)
            # dicts streamed through a generator (the spill-file path), read by two iterators of which one lags behind,
            # and once more afterwards
            for lag, kw in ((2, {"header": hdr}), (3, {}), (0, {"header": hdr})):
                gv = etl.fromdicts((d for d in ds), **kw)
                ra, rb = two_iterators(gv, lag=lag)
                again = _T(gv)
                for name, got in (("leading iterator", ra), ("lagging iterator", rb), ("later pass", again)):
                    if not codec.strict_eq(got, exp):
                        return fail("fromdicts(generator of dicts), %s (lag %d)" % (name, lag), got, exp)
        else:
            cols = etl.columns(T)
            back = _T(etl.fromcolumns(list(cols.values()), header=list(cols.keys())))
            exp = [tuple(hdr)] + rows
            if not codec.strict_eq(back, exp):
                return fail("fromcolumns(columns)", back, exp)
    except Exception as ex:
        return exc_fail(op, ex)
    return None


SUBS = [Sub("reshape", check, strategy=case, quick=14000, thorough=250000)]
KNOWN = {}

# second use of one view object after its sources were edited (shared sub-check, see pv/reuse.py)
from pv import reuse  # noqa: E402
SUBS.append(reuse.sub(ID))
RULE += reuse.RULE

# field names that are not plain str (shared sub-check, see pv/names.py)
from pv import names  # noqa: E402
SUBS.append(names.sub(ID))
RULE += names.RULE

# inputs handed in through neutral petl views (shared sub-check, see pv/upstream.py)
from pv import upstream  # noqa: E402
SUBS.append(upstream.sub(ID))
RULE += upstream.RULE

# the method interface reaches the same functions (shared exhaustive sub-check, see pv/fluent.py)
from pv import fluent  # noqa: E402
SUBS.append(fluent.sub(ID))
RULE += fluent.RULE

# cases at scale (see pv/scale.py)
RULE += scale.RULE
