"""C15 - writing a table and reading it back returns the same table."""
import bz2
import csv
import gzip
import io
import json
import os

import petl as etl
from hypothesis import strategies as st

from pv import gen, codec
from pv import scale
from pv.core import two_iterators, Sub, Fail, exc_fail

ID = "C15"
LEVEL = "exploration"
RULE = ("Sub 'csv': Hypothesis draws tables of text / typed cells (ragged and empty rows; text weighted towards delimiters, both "
        "quote characters, CR, LF, NUL, space, non-ASCII, astral), an encoding (utf-8, utf-8-sig, utf-16, utf-32, latin-1, "
        "cp1252, ascii), delimiter, quotechar, quoting mode, tsv or csv functions, source kind (path, .gz, .bz2, MemorySource), "
        "write_header/header= flags and 0-2 appends. Oracle: fromcsv(tocsv(t)) equals str()-rendered t (None as ''), with a "
        "control: the same rows through a bare in-memory csv.writer/csv.reader with the same dialect; a case the standard "
        "module itself does not round-trip is discarded and counted. to*+append* must decode to the same rows as one to* of "
        "the concatenation (byte-for-byte for plain files and MemorySource). Sub 'pickle': type-strict equality of header and "
        "rows incl. appends and header flags. Sub 'json': tojson (array and lines) / fromjson on JSON types with rows squared "
        "up to the header; tojsonarrays read back with json.load. Non-trivial = a cell contains a delimiter / quote / line "
        "break / NUL / non-ASCII, or the sequence contains an append, or the source is compressed. Distinct by digest.")
ASSUMPTIONS = [
    "csv: line terminator and doublequote left at their defaults (outside which the standard csv module itself is not lossless)",
    "json: >=1 data row and distinct text field names (field names travel in the records)",
    "local filesystem, gzip, bz2 and MemorySource only (no remote sources, no optional formats)",
    "known finding bom-compressed: BOM-writing encodings on .gz/.bz2 targets (CPython TextIOWrapper on non-seekable / per-member streams)",
]

ENCODINGS = ["utf-8", "utf-8-sig", "utf-16", "utf-32", "latin-1", "cp1252", "ascii"]
BASE = list("ab,\"'\r\n\x00;|\t 1") + ["\x0b", "\x0c", "\x1c", "\x1d", "\x1e"]  # incl. str.splitlines() breakers
_U = ["\xe9", "€", "\U0001F600", "\x85", "\u2028", "\u2029"]
EXTRA = {"utf-8": _U + ["\ufeff"], "utf-8-sig": _U, "utf-16": _U, "utf-32": _U, "latin-1": ["\xe9", "\xff", "\x85"], "cp1252": ["\xe9", "€"],
         "ascii": []}
KINDS = ["plain", "gz", "bz2", "mem"]


_LONG = [["p" * 40, "q" * 40]] + [["old-%02d" % i * 6, "stale"] for i in range(12)]


def _target(kind, tmp, name, prior=False):
    """prior: the target already holds a longer table written earlier with a to* function (the same MemorySource object,
    or the same path): a to* call replaces it, whatever its length."""
    if kind == "mem":
        t = etl.MemorySource()
    else:
        t = os.path.join(tmp, name + {"plain": "", "gz": ".gz", "bz2": ".bz2"}[kind])
    if prior:
        etl.tocsv(_LONG, t)
    return t


def _reader(kind, target):
    if kind == "mem":
        return etl.MemorySource(target.getvalue() or b"")
    return target


def _raw(kind, target):
    if kind == "mem":
        return target.getvalue() or b""
    data = open(target, "rb").read()
    if kind == "gz":
        return gzip.decompress(data) if data else b""
    if kind == "bz2":
        return bz2.decompress(data) if data else b""
    return data


# ---- csv ---------------------------------------------------------------------------------------------------------
@st.composite
def csv_case(draw, tier):
    enc = draw(st.sampled_from(ENCODINGS))
    alpha = st.sampled_from(BASE + EXTRA[enc])
    # "default": the quoting argument is omitted on writing AND reading (the module default, minimal quoting)
    quoting = draw(st.sampled_from(["minimal", "all", "nonnumeric", "default", "default"]))
    text = st.text(alpha, max_size=4)
    cell = text if quoting == "nonnumeric" else st.one_of(text, text, st.none(), st.integers(-5, 5), st.floats(allow_nan=False, allow_infinity=False, width=16), st.booleans())
    # field names are usually text, sometimes None (an unnamed column) or an int: rendered like any other cell
    hname = st.text(alpha, max_size=3) if quoting == "nonnumeric" else st.one_of(st.text(alpha, max_size=3), st.text(alpha, max_size=3),
                                                                                 st.text(alpha, max_size=3), st.none(), st.integers(0, 3))
    hdrs = st.lists(hname, min_size=1, max_size=3)
    rows = st.lists(st.lists(cell, max_size=4), max_size=4)
    t1 = [draw(hdrs)] + draw(rows)
    if enc.startswith("utf") and draw(st.integers(0, 5)) == 0:
        # the very first character written is U+FEFF - an ordinary character of a cell, not a byte order mark to be eaten
        for r in t1[:2]:
            if r and isinstance(r[0], str):
                r[0] = "\ufeff" + r[0]
    nappend = draw(st.sampled_from([0, 0, 1, 2]))
    c = {"encoding": enc, "quoting": quoting, "table": t1, "appends": [[draw(hdrs)] + draw(rows) for _ in range(nappend)],
         "tsv": draw(st.booleans()), "kind": draw(st.sampled_from(KINDS)), "prior": draw(st.booleans()), "write_header": draw(st.sampled_from([True, False, None])),
         "append_header": draw(st.sampled_from([True, False, None])), "read_header": draw(st.sampled_from([None, None, ["h1", "h2"]])),
         "readmode": draw(st.sampled_from(["single", "single", "lagging", "len-first"])), "lag": draw(st.integers(0, 3))}
    if not c["tsv"] or draw(st.booleans()):
        c["delimiter"] = draw(st.sampled_from([",", ";", "\t", "|", " "]))
    if draw(st.booleans()):
        c["quotechar"] = draw(st.sampled_from(['"', "'"]))
    return c


def _render(rows):
    return [tuple("" if v is None else str(v) for v in r) for r in rows]


def _is_bom_compressed(case):
    enc, kind, nap = case["encoding"], case["kind"], len(case["appends"])
    if enc in ("utf-16", "utf-32"):
        return kind == "bz2" or (kind == "gz" and nap > 0)
    if enc == "utf-8-sig":
        return kind in ("gz", "bz2") and nap > 0
    return False


def _scaled(case, ctx, longcell=0):
    """One case in twenty at scale: the first table's rows repeated until the output passes an 8 KiB buffer several times
    over (and 1000 rows); sometimes one very long text cell (a line of more than 64 Ki characters for csv)."""
    b = scale.derive(case, odds=20, sizes=[300, 1001, 1025, 2049], wide=False)
    if not b or len(case["table"]) < 2:
        return case
    tbl = scale.apply(case["table"], b)
    if longcell and b["rows"] % 2 and len(tbl) > 3 and tbl[3] and isinstance(tbl[3][0], str):
        tbl[3][0] = "L" * longcell + tbl[3][0]
        ctx.label("long-cell")
    scale.label(ctx, b)
    return dict(case, table=tbl)


def check_csv(case, ctx):
    case = _scaled(case, ctx, longcell=70000)
    enc, kind = case["encoding"], case["kind"]
    kw = {} if case["quoting"] == "default" else {
        "quoting": {"minimal": csv.QUOTE_MINIMAL, "all": csv.QUOTE_ALL, "nonnumeric": csv.QUOTE_NONNUMERIC}[case["quoting"]]}
    for k in ("delimiter", "quotechar"):
        if k in case:
            kw[k] = case[k]
    if kw.get("delimiter") == kw.get("quotechar", '"') or (kw.get("delimiter") == " " and False):
        return None
    t1, appends = case["table"], case["appends"]
    # None = argument omitted: to* writes the header by default, append* does not
    whkw = {} if case["write_header"] is None else {"write_header": case["write_header"]}
    ahkw = {} if case["append_header"] is None else {"write_header": case["append_header"]}
    wh = True if case["write_header"] is None else case["write_header"]
    ah = False if case["append_header"] is None else case["append_header"]
    full = (t1 if wh else t1[1:]) + [r for t in appends for r in (t if ah else t[1:])]
    ctlkw = dict(kw)
    ctlkw.setdefault("delimiter", "\t" if case["tsv"] else ",")
    # control: bare csv module, in memory, same dialect arguments
    try:
        s = io.StringIO(newline="")
        w = csv.writer(s, **ctlkw)
        for r in full:
            w.writerow(r)
        s.seek(0)
        ctrl = [tuple(r) for r in csv.reader(s, **ctlkw)]
    except Exception as e:
        ctx.label("discarded:csv-module-" + type(e).__name__)
        return None
    exp = _render(full)
    if case["quoting"] == "nonnumeric":
        exp = [tuple(r) for r in full]
    if ctrl != exp:
        ctx.label("discarded:csv-module-lossy")
        return None
    try:
        for r in exp:
            for v in r:
                str(v).encode(enc)
    except UnicodeEncodeError:
        ctx.label("discarded:unencodable")
        return None
    flat = "".join(str(v) for r in exp for v in r)
    special = any(ch in flat for ch in ",\"'\r\n\x00;|\t") or any(ord(ch) > 127 for ch in flat)
    ctx.label("enc:" + enc, "kind:" + kind, "appends:%d" % len(appends), "quoting:" + case["quoting"], "tsv" if case["tsv"] else "csv")
    ctx.nontrivial(bool(exp) and (special or appends or kind in ("gz", "bz2")))
    tmp = ctx.tmpdir()
    target = _target(kind, tmp, "t.csv", prior=case.get("prior"))
    tofn, appfn, fromfn = (etl.totsv, etl.appendtsv, etl.fromtsv) if case["tsv"] else (etl.tocsv, etl.appendcsv, etl.fromcsv)
    try:
        tofn(codec.snapshot(t1), target, encoding=enc, **dict(kw, **whkw))
        for t in appends:
            appfn(codec.snapshot(t), target, encoding=enc, **dict(kw, **ahkw))
        rkw = dict(kw)
        if case["read_header"]:
            rkw["header"] = case["read_header"]
        back = fromfn(_reader(kind, target), encoding=enc, **rkw)
        rm = case.get("readmode", "single")
        nlen = None
        if rm == "len-first":
            nlen = len(back)
        if rm == "lagging":
            # read back through two live iterators (one running ahead): one reader object, two passes at once
            got, got_b = two_iterators(back, lag=case.get("lag", 1))
        else:
            got = got_b = [tuple(r) for r in back]
        ctx.label("read:" + rm)
    except Exception as ex:
        return exc_fail("csv/%s" % kind, ex)
    expected = ([tuple(case["read_header"])] if case["read_header"] else []) + exp
    if nlen is not None and nlen != len(got):
        return Fail("csv/%s/len" % kind, "len() of the table read back is %d, a pass delivers %d rows" % (nlen, len(got)))
    if got_b != got:
        return Fail("csv/%s/second-reader" % kind, "two live iterators over the table read back gave %r and %r" % (got, got_b))
    if got != expected:
        return Fail("csv/%s/rows" % kind, "wrote %r (+%r) with %r encoding=%s header flags %r/%r to %s; read back %r, expected %r"
                    % (t1, appends, kw, enc, wh, ah, kind, got, expected))
    # to* + append* == to*(concatenation)
    if appends:
        target2 = _target(kind, tmp, "u.csv")
        cat = [t1[0]] + t1[1:] + [r for t in appends for r in (t if ah else t[1:])]
        try:
            tofn(cat, target2, encoding=enc, write_header=wh, **kw)
            a, b = _raw(kind, target), _raw(kind, target2)
        except Exception as ex:
            return exc_fail("csv/%s/concat" % kind, ex)
        if a != b:
            return Fail("csv/%s/append-bytes" % kind, "to*+append* wrote %r, to*(concatenation) wrote %r" % (a, b))
    return None


# ---- pickle -----------------------------------------------------------------------------------------------------
PCELL = st.one_of(gen.scalar, gen.value, st.dictionaries(st.text(max_size=2), st.integers(0, 3), max_size=2))


@st.composite
def pickle_case(draw, tier):
    hdrs = st.lists(st.one_of(st.text(max_size=3), st.integers(0, 3)), max_size=3)
    rows = st.lists(st.lists(PCELL, max_size=4), max_size=4)
    return {"table": [draw(hdrs)] + draw(rows), "appends": [[draw(hdrs)] + draw(rows) for _ in range(draw(st.sampled_from([0, 1, 2])))],
            "kind": draw(st.sampled_from(KINDS)), "prior": draw(st.booleans()), "write_header": draw(st.sampled_from([True, False, None])),
            "append_header": draw(st.sampled_from([True, False, None])),
            "protocol": draw(st.sampled_from([-1, 0, 2, 4])), "rowtype": draw(st.sampled_from(["list", "tuple"])),
            "readmode": draw(st.sampled_from(["single", "single", "lagging"])), "lag": draw(st.integers(0, 3))}


def check_pickle(case, ctx):
    case = _scaled(case, ctx, longcell=9000)
    kind = case["kind"]
    t1, appends = case["table"], case["appends"]
    whkw = {} if case["write_header"] is None else {"write_header": case["write_header"]}
    ahkw = {} if case["append_header"] is None else {"write_header": case["append_header"]}
    wh = True if case["write_header"] is None else case["write_header"]
    ah = False if case["append_header"] is None else case["append_header"]
    conv = tuple if case["rowtype"] == "tuple" else list
    exp = [tuple(r) for r in (t1 if wh else t1[1:])] + [tuple(r) for t in appends for r in (t if ah else t[1:])]
    ctx.label("kind:" + kind, "appends:%d" % len(appends), "protocol:%d" % case["protocol"])
    ctx.nontrivial(len(exp) >= 2 and (appends or kind in ("gz", "bz2") or any(not isinstance(c, (str, int)) for r in exp for c in r)))
    tmp = ctx.tmpdir()
    target = _target(kind, tmp, "t.p", prior=case.get("prior"))
    try:
        etl.topickle([conv(r) for r in codec.snapshot(t1)], target, protocol=case["protocol"], **whkw)
        for t in appends:
            etl.appendpickle([conv(r) for r in codec.snapshot(t)], target, protocol=case["protocol"], **ahkw)
        back = etl.frompickle(_reader(kind, target))
        rm = case.get("readmode", "single")
        if rm == "lagging":
            got, got_b = two_iterators(back, lag=case.get("lag", 1), norm=lambda r: r)
        else:
            got = got_b = [r for r in back]
        ctx.label("read:" + rm)
    except Exception as ex:
        return exc_fail("pickle/%s" % kind, ex)
    if not codec.strict_eq(got_b, got):
        return Fail("pickle/%s/second-reader" % kind, "two live iterators over the table read back gave %r and %r" % (got, got_b))
    if not codec.strict_eq(got, exp):
        return Fail("pickle/%s/rows" % kind, "wrote %r (+%r) flags %r/%r; read back %r expected %r" % (t1, appends, wh, ah, got, exp))
    if appends:
        target2 = _target(kind, tmp, "u.p")
        cat = [conv(r) for r in t1] + [conv(r) for t in appends for r in (t if ah else t[1:])]
        try:
            etl.topickle(cat, target2, protocol=case["protocol"], write_header=wh)
            a, b = _raw(kind, target), _raw(kind, target2)
        except Exception as ex:
            return exc_fail("pickle/%s/concat" % kind, ex)
        if a != b:
            return Fail("pickle/%s/append-bytes" % kind, "to+append bytes differ from to(concatenation)")
    return None


# ---- json ---------------------------------------------------------------------------------------------------------
JCELL = st.recursive(st.one_of(st.none(), st.booleans(), st.integers(-3, 3), st.integers(), st.floats(allow_nan=False, allow_infinity=False),
                               st.text(max_size=3), st.text(st.sampled_from(list('a"\\\n\x00\xe9€') + ["\U0001F600"]), max_size=3)),
                     lambda ch: st.one_of(st.lists(ch, max_size=2), st.dictionaries(st.text(max_size=2), ch, max_size=2)), max_leaves=4)


@st.composite
def json_case(draw, tier):
    names = draw(st.lists(st.text(st.sampled_from(list('ab\xe9 "\n1')), max_size=3), min_size=1, max_size=3, unique=True))
    rows = draw(st.lists(st.lists(JCELL, max_size=4), min_size=1, max_size=4))
    return {"table": [names] + rows, "kind": draw(st.sampled_from(KINDS)), "prior": draw(st.booleans()), "lines": draw(st.booleans()),
            "form": draw(st.sampled_from(["dicts", "dicts", "arrays", "arrays-header"])), "header_arg": draw(st.booleans()),
            "prefix": draw(st.sampled_from([None, None, "x("])), "indent": draw(st.sampled_from([None, None, 1]))}


def _sq(t, missing=None):
    n = len(t[0])
    return [tuple(t[0])] + [tuple((list(r) + [missing] * n)[:n]) for r in t[1:]]


def check_json(case, ctx):
    case = _scaled(case, ctx)
    t, kind, lines, form = case["table"], case["kind"], case["lines"], case["form"]
    tmp = ctx.tmpdir()
    target = _target(kind, tmp, "t.json", prior=case.get("prior"))
    flat = json.dumps(t)
    ctx.label("kind:" + kind, "form:" + form, "lines" if lines else "array")
    ctx.nontrivial(kind in ("gz", "bz2") or "\\" in flat or len(t) > 2)
    try:
        if form == "dicts":
            kw = {}
            if case["indent"] and not lines:
                kw["indent"] = case["indent"]
            etl.tojson(codec.snapshot(t), target, lines=lines, **kw)
            rkw = {"lines": lines}
            if case["header_arg"]:
                rkw["header"] = list(t[0])
            got = [tuple(r) for r in etl.fromjson(_reader(kind, target), **rkw)]
            exp = _sq(t)
            if not codec.strict_eq(got, json.loads(json.dumps(exp), object_hook=None) and [tuple(r) for r in json.loads(json.dumps(exp))]):
                return Fail("json/%s/rows" % kind, "wrote %r lines=%r; read back %r expected %r" % (t, lines, got, exp))
        else:
            with_header = form == "arrays-header"
            kw = {}
            if case["prefix"]:
                kw["prefix"], kw["suffix"] = case["prefix"], ")"
            etl.tojsonarrays(codec.snapshot(t), target, output_header=with_header, **kw)
            raw = _raw(kind, target).decode("utf-8")
            if case["prefix"]:
                if not (raw.startswith(case["prefix"]) and raw.endswith(")")):
                    return Fail("json/%s/prefix" % kind, "prefix/suffix not written: %r" % raw[:50])
                raw = raw[len(case["prefix"]):-1]
            got = json.loads(raw)
            exp = json.loads(json.dumps([list(r) for r in (t if with_header else t[1:])]))
            if not codec.strict_eq(got, exp):
                return Fail("json/%s/arrays" % kind, "wrote %r; file holds %r expected %r" % (t, got, exp))
    except Exception as ex:
        return exc_fail("json/%s" % kind, ex)
    return None


SUBS = [
    Sub("csv", check_csv, strategy=csv_case, quick=8000, thorough=150000),
    Sub("pickle", check_pickle, strategy=pickle_case, quick=3000, thorough=60000),
    Sub("json", check_json, strategy=json_case, quick=3000, thorough=60000),
]


def _known_bom(sub, case, fail):
    return sub == "csv" and _is_bom_compressed(case)


KNOWN = {"bom-compressed": _known_bom}

# the method interface reaches the same functions (shared exhaustive sub-check, see pv/fluent.py)
from pv import fluent  # noqa: E402
SUBS.append(fluent.sub(ID))
RULE += fluent.RULE

# cases at scale (see pv/scale.py)
RULE += scale.RULE
