"""C16 - pass-through views are transparent; a consumed tee writes what to* writes."""
import io
import logging
import os

import petl as etl
from petl.util.materialise import cache as petl_cache
from hypothesis import strategies as st

from pv import gen, codec
from pv import scale
from pv.core import Sub, Fail, exc_fail
from pv.props.c15 import _target, _raw, KINDS

ID = "C16"
LEVEL = "exploration"
RULE = ("Sub 'passthrough': Hypothesis draws a table (ragged rows, header-only included) and a wrapper: progress / log_progress "
        "with batch sizes 1..n+1, clock, cache(n) for n in {None, 0..nrows+2}, wrap; a schedule of passes (full, partial, full); "
        "every pass must yield exactly the rows of the wrapped table, in order. Sub 'tees': teecsv/teetsv/teepickle/teetext/"
        "teehtml with their write_header / encoding / dialect / template / prologue / epilogue / caption / lineterminator / "
        "style arguments over path, .gz, .bz2 and MemorySource targets: rows yielded equal the wrapped rows, and after a full "
        "iteration the target holds byte-for-byte what the matching to* writes (decompressed content for .gz/.bz2, whose "
        "container embeds a timestamp). Non-trivial = >=2 data rows and (a ragged row, or a batch/cache boundary inside the "
        "table, or a non-default tee argument). Distinct by digest.")
ASSUMPTIONS = [
    "the table has a header row (tee views return before writing anything on an entirely empty table)",
    "progress output goes to a private StringIO / logger; timing figures in it are not asserted",
    "text encodings without BOM for tee targets that are compressed (known finding bom-compressed of C15)",
]

CELL = st.one_of(gen.scalar, st.sampled_from(["a,b", 'q"', "x\ny", "\xe9", "", None, 1, 2.5]))


@st.composite
def pass_case(draw, tier):
    nf = draw(st.integers(1, 3))
    hdr = ["a", "b", "c"][:nf]
    tbl = draw(gen.table(hdr, [CELL] * nf, max_rows=6 if tier == "quick" else 12, ragged=draw(st.booleans())))
    n = len(tbl) - 1
    op = draw(st.sampled_from(["progress", "log_progress", "clock", "cache", "cache", "wrap"]))
    c = {"op": op, "table": tbl, "passes": draw(st.lists(st.one_of(st.just("full"), st.integers(0, n + 1)), min_size=0, max_size=3)),
         "rowtype": draw(st.sampled_from(["list", "tuple"])),
         # two iterators advanced alternately (each step names the iterator that moves), then one more full pass
         "interleave": draw(st.lists(st.integers(0, 1), max_size=2 * n + 4)) if (op == "cache" or draw(st.booleans())) else []}
    if op in ("progress", "log_progress"):
        c["batchsize"] = draw(st.sampled_from(sorted({1, 2, 3, max(1, n), n + 1, n + 2})))
        c["prefix"] = draw(st.sampled_from(["", "p: "]))
    if op == "cache":
        c["n"] = draw(st.one_of(st.none(), st.integers(0, n + 3)))
    return c


def _scaled(case, ctx, longcell=False):
    """One case in twenty at scale: the rows repeated past 1000 / an 8 KiB buffer; for the tees sometimes one cell of more
    than 8 KiB (in the third row, so that smaller rows come before and after it)."""
    b = scale.derive(case, odds=20, sizes=[130, 300, 1001, 1025, 2049], wide=False)
    if not b or len(case["table"]) < 2:
        return case
    tbl = scale.apply(case["table"], b)
    if longcell and b["rows"] % 2 and len(tbl) > 3 and tbl[3]:
        tbl[3][0] = "L" * 9000
        ctx.label("long-cell")
    scale.label(ctx, b)
    return dict(case, table=tbl)


def check_pass(case, ctx):
    case = _scaled(case, ctx)
    op, tbl = case["op"], case["table"]
    conv = tuple if case["rowtype"] == "tuple" else list
    src = [conv(r) for r in codec.snapshot(tbl)]
    exp = [tuple(r) for r in tbl]
    n = len(tbl) - 1
    out = io.StringIO()
    try:
        if op == "progress":
            view = etl.progress(src, case["batchsize"], prefix=case["prefix"], out=out)
        elif op == "log_progress":
            lg = logging.getLogger("pv.c16")
            lg.propagate = False
            lg.handlers = [logging.StreamHandler(out)]
            lg.setLevel(logging.INFO)
            view = etl.log_progress(src, case["batchsize"], prefix=case["prefix"], logger=lg)
        elif op == "clock":
            view = etl.clock(src)
        elif op == "cache":
            view = petl_cache(src, n=case["n"])
        else:
            view = etl.wrap(src)
    except Exception as ex:
        return exc_fail(op + "/construct", ex)
    boundary = (op in ("progress", "log_progress") and case["batchsize"] <= n) or (op == "cache" and case.get("n") is not None and 0 < case["n"] <= n + 1)
    ctx.label("op:" + op, "passes:%d" % len(case["passes"]))
    ctx.nontrivial(n >= 2 and (boundary or any(len(r) != len(tbl[0]) for r in tbl[1:]) or len(case["passes"]) > 1))
    for i, p in enumerate(case["passes"]):
        try:
            it = iter(view)
            if p == "full":
                got = [tuple(r) for r in it]
                want = exp
            else:
                got = []
                for j, r in enumerate(it):
                    if j >= p:
                        break
                    got.append(tuple(r))
                want = exp[:p]
                del it
        except Exception as ex:
            return exc_fail(op, ex)
        if got != want:
            return Fail("%s/rows" % op, "%s %r pass %d (%r) yielded %r, wrapped table has %r" % (op, {k: v for k, v in case.items() if k not in ("table", "op")}, i, p, got, want))
    if case.get("interleave"):
        its, pos = {}, {}
        try:
            for s_ in case["interleave"]:
                if s_ not in its:
                    its[s_], pos[s_] = iter(view), 0
                try:
                    r = tuple(next(its[s_]))
                except StopIteration:
                    if pos[s_] != len(exp):
                        return Fail("%s/interleaved-early-stop" % op, "iterator %d stopped after %d of %d rows" % (s_, pos[s_], len(exp)))
                    continue
                if pos[s_] >= len(exp) or r != exp[pos[s_]]:
                    return Fail("%s/interleaved-rows" % op, "%s %r: iterator %d at position %d yielded %r, wrapped table has %r (schedule %r)"
                                % (op, case.get("n", case.get("batchsize")), s_, pos[s_], r, exp[pos[s_]:pos[s_] + 1], case["interleave"]))
                pos[s_] += 1
            del its
            got = [tuple(r) for r in view]
        except Exception as ex:
            return exc_fail(op + "/interleaved", ex)
        if got != exp:
            return Fail("%s/rows-after-interleaving" % op, "%s pass after interleaved iterators yielded %r, wrapped table has %r" % (op, got, exp))
    return None


# ---- tees ---------------------------------------------------------------------------------------------------------
TEES = ["csv", "tsv", "pickle", "text", "html"]


@st.composite
def tee_case(draw, tier):
    nf = draw(st.integers(1, 3))
    hdr = ["a", "b", "c"][:nf]
    fmt = draw(st.sampled_from(TEES))
    cell = CELL if fmt != "text" else st.one_of(st.text(alphabet="ab\xe9{}\n", max_size=3), st.integers(0, 9), st.none())
    # (text: rows may be SHORT - an absent field is None in the template, for the tee as for totext - but not long)
    tbl = draw(gen.table(hdr, [cell] * nf, max_rows=5 if tier == "quick" else 10, ragged=draw(st.booleans())))
    if fmt == "text":
        tbl = [tbl[0]] + [r[:nf] for r in tbl[1:]]
    if nf >= 2 and draw(st.integers(0, 4)) == 0:
        # a repeated field name (as addfield / annex / a join without prefixes produce): the tee and to* must agree on
        # which column a name in a template or style mapping means
        tbl = [[["a", "a"], ["a", "b", "a"], ["b", "a", "a"]][draw(st.integers(0, 2))][:nf] if nf == 3 else ["a", "a"]] + tbl[1:]
    kind = draw(st.sampled_from(KINDS))
    c = {"fmt": fmt, "table": tbl, "kind": kind, "passes": draw(st.sampled_from([1, 1, 2])),
         # the target may already hold the (longer) output of an earlier run: a tee replaces it, as to* does
         "prefill": draw(st.booleans()),
         # an earlier pass over the tee is abandoned after a few rows but stays alive until a complete pass has run; it is
         # closed only then (its clean-up must not touch what the complete pass wrote)
         "overlap": draw(st.integers(0, 3)) == 0, "overlap_k": draw(st.integers(1, 3))}
    if fmt in ("csv", "tsv"):
        c["kw"] = {"encoding": draw(st.sampled_from(["utf-8", "latin-1", "utf-8-sig"] if kind in ("plain", "mem") else ["utf-8", "latin-1"]))}
        wh = draw(st.sampled_from([True, False, None]))   # None: the argument is omitted (tee and to* share the default)
        if wh is not None:
            c["kw"]["write_header"] = wh
        if draw(st.integers(0, 2)) == 0:
            import csv as _csv
            c["kw"]["quoting"] = draw(st.sampled_from([_csv.QUOTE_ALL, _csv.QUOTE_MINIMAL, _csv.QUOTE_NONNUMERIC]))
        if draw(st.integers(0, 3)) == 0:
            c["kw"]["quotechar"] = "'"
        if draw(st.booleans()):
            c["kw"]["delimiter"] = draw(st.sampled_from([";", "|", ","]))
        if draw(st.booleans()):
            c["kw"]["lineterminator"] = draw(st.sampled_from(["\n", "\r\n"]))
        # a csv dialect given by name, alone or next to other arguments: tee and to* must read it the same way
        if draw(st.integers(0, 2)) == 0:
            c["kw"]["dialect"] = draw(st.sampled_from(["unix", "excel", "excel-tab"]))
    elif fmt == "pickle":
        c["kw"] = {"protocol": draw(st.sampled_from([-1, 0, 2]))}
        wh = draw(st.sampled_from([True, False, None]))
        if wh is not None:
            c["kw"]["write_header"] = wh
    elif fmt == "text":
        tmpls = ["{a}\n", "{a}|{a}\r\n", "row {a}", "{a!r} "] + (["{b}-{a}\n", "{a!s:>4}|{b!r}\n"] if nf >= 2 else []) + (["{c}{b}{a}\n"] if nf >= 3 else [])
        tmpls = [t for t in tmpls if all(("{%s" % f) not in t or f in tbl[0] for f in "abc")]   # only fields the header has
        c["kw"] = {"template": draw(st.sampled_from(tmpls)), "encoding": draw(st.sampled_from(["utf-8", "utf-8", "latin-1", "utf-16"]))}
        if draw(st.booleans()):
            c["kw"]["prologue"] = "start\n"
        if draw(st.booleans()):
            c["kw"]["epilogue"] = "end\n"
    else:
        c["kw"] = {"encoding": "utf-8"}
        if draw(st.booleans()):
            c["kw"]["caption"] = "cap"
        if draw(st.booleans()):
            c["kw"]["lineterminator"] = draw(st.sampled_from(["\r\n", ""]))
        if draw(st.booleans()):
            c["kw"]["index_header"] = True
        if draw(st.booleans()):
            c["kw"]["tr_style"] = "color: red"
        if draw(st.booleans()):
            c["kw"]["td_styles"] = draw(st.sampled_from(["font-weight: bold", {"a": "x: y"}]))
        if draw(st.booleans()):
            c["kw"]["truncate"] = 2
    return c


def check_tee(case, ctx):
    case = _scaled(case, ctx, longcell=True)
    fmt, tbl, kind, kw = case["fmt"], case["table"], case["kind"], dict(case["kw"])
    tee = getattr(etl, "tee" + fmt)
    to = getattr(etl, "to" + fmt)
    tmp = ctx.tmpdir()
    ext = {"csv": ".csv", "tsv": ".tsv", "pickle": ".p", "text": ".txt", "html": ".html"}[fmt]
    t_tee, t_to = _target(kind, tmp, "tee" + ext), _target(kind, tmp, "to" + ext)
    exp = [tuple(r) for r in tbl]
    n = len(tbl) - 1
    ctx.label("fmt:" + fmt, "kind:" + kind)
    if len(set(tbl[0])) < len(tbl[0]):
        ctx.label("repeated-field-name")
    ctx.nontrivial(n >= 2 and (len(kw) > 1 or any(len(r) != len(tbl[0]) for r in tbl[1:]) or kind != "plain"))
    if fmt == "text" and any(v is None for r in tbl[1:] for v in r) and False:
        pass
    try:
        if case.get("prefill"):
            longer = [list(tbl[0])] + [list(r) for r in tbl[1:]] * 3 + [[("x" * 40) if fmt != "text" else "x" * 40] * len(tbl[0])]
            if fmt == "text":
                longer = [list(tbl[0])] + [["x" * 40] * len(tbl[0])] * 5
            tee_pre = tee(longer, t_tee, **kw)
            for _ in tee_pre:
                pass
            ctx.label("prefilled")
        view = tee(codec.snapshot(tbl), t_tee, **kw)
        stale = None
        if case.get("overlap") and kind == "plain":
            stale = iter(view)
            for _ in range(case.get("overlap_k", 1)):
                next(stale, None)
            ctx.label("overlapping-abandoned-pass")
        for _ in range(case["passes"]):
            got = [tuple(r) for r in view]
            if got != exp:
                return Fail("tee%s/rows" % fmt, "tee%s yielded %r, wrapped table has %r" % (fmt, got, exp))
        if stale is not None:
            stale.close()
            del stale
        to(codec.snapshot(tbl), t_to, **kw)
        a, b = _raw(kind, t_tee), _raw(kind, t_to)
    except Exception as ex:
        return exc_fail("tee%s/%s" % (fmt, kind), ex)
    if a != b:
        return Fail("tee%s/%s/bytes" % (fmt, kind), "tee%s(%r, %r) wrote %r, to%s wrote %r" % (fmt, tbl, kw, a, fmt, b))
    return None


SUBS = [
    Sub("passthrough", check_pass, strategy=pass_case, quick=8000, thorough=100000),
    Sub("tees", check_tee, strategy=tee_case, quick=6000, thorough=100000),
]
KNOWN = {}

# second use of one view object after its sources were edited (shared sub-check, see pv/reuse.py)
from pv import reuse  # noqa: E402
SUBS.append(reuse.sub(ID))
RULE += reuse.RULE

# field names that are not plain str (shared sub-check, see pv/names.py)
from pv import names  # noqa: E402
SUBS.append(names.sub(ID))
RULE += names.RULE

# inputs handed in through neutral petl views (shared sub-check, see pv/upstream.py)
from pv import upstream  # noqa: E402
SUBS.append(upstream.sub(ID))
RULE += upstream.RULE

# the method interface reaches the same functions (shared exhaustive sub-check, see pv/fluent.py)
from pv import fluent  # noqa: E402
SUBS.append(fluent.sub(ID))
RULE += fluent.RULE

# cases at scale (see pv/scale.py)
RULE += scale.RULE
