"""C17 - database loads round-trip and are all-or-nothing when the source fails."""
import os
import sqlite3

import petl as etl
from hypothesis import strategies as st

from pv import gen, codec
from pv.core import Sub, Fail, exc_fail
from pv.probes import Failing, Boom, BOOM_KINDS

ID = "C17"
LEVEL = "fault_enumeration"
RULE = ("Hypothesis draws (prior table contents, new table, operation todb/appenddb, handle kind: file name / DB-API "
        "connection / cursor / cursor factory, commit flag) over sqlite-safe cells (None, 64-bit ints, floats, text incl. "
        "non-ASCII, bytes) in a private sqlite file with untyped columns. For EVERY such case every crash point is "
        "enumerated: the source raises at item 0 (header), at each data row 1..n, at exhaustion n+1, plus the no-fault "
        "control (label 'loads' counts the individual loads). Control oracle: a fresh connection (after the harness commits "
        "a caller-owned connection when commit=False) reads exactly the rows written - replaced (todb) or appended "
        "(appenddb). Fault oracle: whether the call raises the injected exception (of a generated standard type: plain, "
        "TypeError, ValueError, KeyError, IndexError, AttributeError, OSError) or returns, before the harness touches the "
        "caller's connection a fresh connection reads exactly the prior contents. Non-trivial = prior contents non-empty, new table "
        "has >=2 rows (so a fault index lies strictly inside the data). Sub 'sequences': 2-4 loads (todb/appenddb, commit flag each) through ONE "
        "caller-owned connection / cursor / cursor factory against a model of the table; after every call a fresh connection "
        "sees the last durable state (everything staged so far once a committing load has run). Sub 'large': the same oracle on "
        "2300-row loads with faults beyond petl's and sqlite's batch sizes, and on 5000 rows of 1.5 KiB loaded through a file-name "
        "handle over a table of 4000 such rows (a transaction of several MiB). The rows to load may themselves be read with "
        "fromdb() through the caller's connection. Distinct by digest of the case.")
ASSUMPTIONS = [
    "sqlite3 is the only DB-API driver present; tables are created by the harness with untyped columns",
    "rows have the table's arity (a malformed row is a driver error, not a failing source)",
    "process kills and power loss are outside the statement ('once petl's call has returned control')",
]

SCELL = st.one_of(st.none(), st.integers(-3, 3), st.integers(-2 ** 63, 2 ** 63 - 1), st.floats(allow_nan=False, allow_infinity=False),
                  st.text(alphabet="ab'\"\xe9 ;%", max_size=3), st.binary(max_size=2), st.text(max_size=2))
HANDLES = ["filename", "connection", "cursor", "cursorfn"]


@st.composite
def case(draw, tier):
    nf = draw(st.integers(1, 3))
    hdr = draw(st.lists(st.sampled_from(["a", "b", "c", "x y", "select", 'q"q', "é"]), min_size=nf, max_size=nf, unique=True))
    row = st.lists(SCELL, min_size=nf, max_size=nf)
    np_, nn = draw(gen.sizes(0, 3)), draw(gen.sizes(0, 4 if tier == "quick" else 7))
    return {"header": hdr, "prior": draw(st.lists(row, min_size=np_, max_size=np_)), "new": draw(st.lists(row, min_size=nn, max_size=nn)),
            "op": draw(st.sampled_from(["todb", "appenddb"])), "handle": draw(st.sampled_from(HANDLES)), "commit": draw(st.booleans()),
            # ("fromdb-same-connection": the rows to load are themselves read with fromdb() through the caller's connection)
            "source_kind": draw(st.sampled_from(["list", "pipeline", "fromdb-same-connection"])),
            # the documented schema= argument, on a connection where a TEMP table of the same name shadows the target
            "schema": draw(st.sampled_from(["none", "none", "temp-shadow"])),
            # the exception type of the injected failure, per crash point (a loader may catch TypeError, IndexError ... for
            # purposes of its own; a failure of the source must still surface and leave nothing behind)
            "fault_kinds": [draw(st.sampled_from(BOOM_KINDS)) for _ in range(nn + 2)],
            # the database table declares its columns in another order than the petl table's header
            "colperm": draw(st.permutations(list(range(nf)))) if draw(st.booleans()) else None,
            "fromdb_handle": draw(st.sampled_from(["connection", "filename", "cursor", "cursorfn"]))}


def _q(n):
    return '"%s"' % n.replace('"', '""')


_COLS = {"hdr": None}   # header of the table under test: the harness reads and writes columns BY NAME, in this order


class _Rows(object):
    """A view with a known length (Failing asks for it to place a fault at exhaustion)."""

    def __init__(self, view, n):
        self.view, self.n = view, n

    def __iter__(self):
        return iter(self.view)

    def __len__(self):
        return self.n


def _mkdb(path, hdr, prior, colperm=None):
    """The table's columns may be declared in another order than the header of the petl table that is loaded into it:
    a load goes by field NAME (INSERT INTO t (names...)), never by position."""
    _COLS["hdr"] = list(hdr)
    order = [hdr[i] for i in colperm] if colperm and sorted(colperm) == list(range(len(hdr))) else list(hdr)
    con = sqlite3.connect(path)
    con.execute("CREATE TABLE t (%s)" % ", ".join(_q(n) for n in order))
    con.executemany("INSERT INTO t (%s) VALUES (%s)" % (", ".join(_q(n) for n in hdr), ", ".join("?" * len(hdr))), [tuple(r) for r in prior])
    con.commit()
    con.close()


def _select():
    return "SELECT %s FROM t ORDER BY rowid" % ", ".join(_q(n) for n in _COLS["hdr"])


def _read(path):
    con = sqlite3.connect(path)
    try:
        return [tuple(r) for r in con.execute(_select())]
    finally:
        con.close()


def check(case, ctx):
    hdr, prior, new = case["header"], case["prior"], case["new"]
    op, handle, commit = case["op"], case["handle"], case["commit"]
    fn = etl.todb if op == "todb" else etl.appenddb
    n = len(new)
    rows = [list(hdr)] + [list(r) for r in new]
    tmp = ctx.tmpdir()
    prior_rows = [tuple(r) for r in prior]
    ctx.label("op:" + op, "handle:" + handle, "commit:%s" % commit)
    ctx.nontrivial(len(prior) >= 1 and n >= 2)
    if handle == "filename" and not commit:
        # a file-name handle with commit=False can never persist anything; only the fault half applies
        ctx.label("filename-nocommit")
    for at in case.get("faults") or ([None] + list(range(0, n + 2))):
        ctx.labels.append("loads")
        path = os.path.join(tmp, "db%s.sqlite" % ("ok" if at is None else at))
        _mkdb(path, hdr, prior, case.get("colperm"))
        kinds = case.get("fault_kinds")
        kind = kinds[at % len(kinds)] if (kinds and at is not None) else "plain"
        if at is not None:
            ctx.labels.append("fault-kind:" + kind)
        src = Failing(rows, at, kind)
        if case["source_kind"] == "pipeline":
            src = etl.convert(etl.select(src, lambda r: True), 0, lambda v: v)
        con = cur = None
        if case["source_kind"] == "fromdb-same-connection" and handle != "filename":
            c0 = sqlite3.connect(path)
            c0.execute("CREATE TABLE src_t (%s)" % ", ".join(_q(h) for h in hdr))
            c0.executemany("INSERT INTO src_t VALUES (%s)" % ", ".join("?" * len(hdr)), [tuple(r) for r in new])
            c0.commit()
            c0.close()
        if handle == "filename":
            dbo = path
        else:
            con = sqlite3.connect(path)
            if handle == "connection":
                dbo = con
            elif handle == "cursor":
                cur = con.cursor()
                dbo = cur
            else:
                dbo = lambda: con.cursor()  # noqa
        if case["source_kind"] == "fromdb-same-connection" and con is not None:
            src = Failing(_Rows(etl.fromdb(con, "SELECT * FROM src_t ORDER BY rowid"), len(rows)), at, kind)
            ctx.labels.append("source:fromdb-same-connection")
        shadow = case.get("schema") == "temp-shadow" and con is not None
        skw = {}
        SHADOW_ROWS = [tuple(["shadow"] * len(hdr))]
        if shadow:
            con.execute("CREATE TEMP TABLE t (%s)" % ", ".join(_q(n) for n in hdr))
            con.executemany("INSERT INTO temp.t VALUES (%s)" % ", ".join("?" * len(hdr)), SHADOW_ROWS)
            con.commit()
            skw["schema"] = "main"
            ctx.labels.append("schema:temp-shadow")
        raised = None
        try:
            try:
                fn(src, dbo, "t", commit=commit, **skw)
            except Boom as b:
                raised = b.with_traceback(None)   # (as after `except ...: pass`: the frames of the failed call are gone)
            except Exception as ex:
                return exc_fail("%s/%s" % (op, handle), ex)
            src = None
            # what a fresh connection sees now, before the harness touches the caller's connection
            try:
                seen = _read(path)
            except Exception as ex:
                return Fail("%s/%s/fresh-connection-blocked" % (op, handle), "fresh connection cannot read after the call: %r" % (ex,))
            if shadow:
                other = [tuple(r) for r in con.execute("SELECT * FROM temp.t")]
                if raised is None and other != SHADOW_ROWS:
                    return Fail("%s/%s/wrong-table-touched" % (op, handle), "%s(..., 't', schema='main') changed the TEMP table of the same name: %r" % (op, other))
            if at is not None:
                if raised is None and seen == prior_rows:
                    ctx.labels.append("fault-swallowed-but-nothing-committed")   # odd, but the statement holds
                if seen != prior_rows:
                    return Fail("%s/%s/not-all-or-nothing" % (op, handle), "%s(commit=%r) via %s: source failed at item %d of %d; a fresh connection "
                                "sees %r, previous contents were %r%s" % (op, commit, handle, at, n + 1, seen, prior_rows,
                                "" if raised is not None else " (and the call returned normally)"))
            else:
                if raised is not None:
                    return Fail("%s/%s/spurious-exception" % (op, handle), repr(raised))
                exp = ([] if op == "todb" else prior_rows) + [tuple(r) for r in new]
                if not commit:
                    if seen != prior_rows:
                        return Fail("%s/%s/committed-despite-commit-false" % (op, handle), "commit=False but a fresh connection already sees %r" % (seen,))
                    if con is not None:
                        con.commit()
                        seen = _read(path)
                    else:
                        seen = None  # file-name handle with commit=False: nothing can persist
                if seen is not None:
                    if not codec.strict_eq(seen, exp):
                        return Fail("%s/%s/roundtrip" % (op, handle), "%s wrote %r over %r; a fresh connection reads %r, expected %r" % (op, new, prior, seen, exp))
                    # fromdb through each kind of handle it documents, iterated twice
                    rcon = sqlite3.connect(path)
                    fh = case.get("fromdb_handle", "connection")
                    rdbo = path if fh == "filename" else rcon if fh == "connection" else rcon.cursor() if fh == "cursor" else (lambda: rcon.cursor())
                    try:
                        fv = etl.fromdb(rdbo, _select())
                        for pno in (1, 2):
                            back = [tuple(r) for r in fv]
                            if back[:1] != [tuple(hdr)] or not codec.strict_eq(back[1:], exp):
                                return Fail("%s/%s/fromdb" % (op, handle), "fromdb via %s, pass %d, returned %r, expected %r" % (fh, pno, back, [tuple(hdr)] + exp))
                    finally:
                        rcon.close()
        finally:
            if cur is not None:
                try:
                    cur.close()
                except Exception:
                    pass
            if con is not None:
                con.close()
    return None


def large_cases(tier):
    for op in ("todb", "appenddb"):
        for handle in HANDLES:
            for commit in (True, False):
                yield {"op": op, "handle": handle, "commit": commit, "n": 2300}
    # several MiB in one transaction (more than sqlite keeps in its page cache), over a table that already holds thousands of
    # rows: all-or-nothing must not depend on the transaction fitting in memory
    for op in ("todb", "appenddb"):
        # (file-name handle: petl owns and closes the connection; with a caller-owned connection sqlite keeps the file locked
        #  for other connections until the CALLER ends the spilled transaction - not petl's to decide)
        for handle in ("filename",):
            yield {"op": op, "handle": handle, "commit": True, "n": 5000, "cell": 1500, "prior_n": 4000, "faults": [4600, 5001]}


def check_large(case, ctx):
    """Same oracle as `check`, on a table of 2300 rows with faults at data rows 1000, 1001, 2000 and at exhaustion (a loader
    that commits per batch would persist the first batches)."""
    n = case["n"]
    pad = "x" * case.get("cell", 0)
    prior = [[-1, "old"], [-2, "older"]] if not case.get("prior_n") else [[-i, "old%d" % i + pad] for i in range(1, case["prior_n"] + 1)]
    c = {"header": ["a", "b"], "prior": prior, "new": [[i, "r%d" % i + pad] for i in range(n)], "op": case["op"],
         "handle": case["handle"], "commit": case["commit"], "source_kind": "list", "schema": "none",
         "faults": case.get("faults") or [None, 1001, 1002, 2001, n + 1], "fault_kinds": ["plain", "type", "index", "key"]}
    return check(c, ctx)


# ---- several loads through ONE caller-owned handle ------------------------------------------------------------------
@st.composite
def seq_case(draw, tier):
    nf = draw(st.integers(1, 2))
    hdr = ["a", "b"][:nf]
    row = st.lists(SCELL, min_size=nf, max_size=nf)
    loads = [[draw(st.sampled_from(["todb", "appenddb", "appenddb"])), draw(st.lists(row, max_size=3)), draw(st.booleans())]
             for _ in range(draw(st.integers(2, 4)))]
    return {"header": hdr, "prior": draw(st.lists(row, max_size=2)), "loads": loads,
            "handle": draw(st.sampled_from(["connection", "cursor", "cursorfn"]))}


def check_seq(case, ctx):
    """Model: the table's contents after each load (todb replaces, appenddb extends).  commit=False stages a load in the
    caller's transaction; the next commit=True load (or the caller's own commit) makes everything staged so far durable.
    A fresh connection must see the last durable state after every call."""
    hdr, handle = case["header"], case["handle"]
    tmp = ctx.tmpdir()
    path = os.path.join(tmp, "seq.sqlite")
    _mkdb(path, hdr, case["prior"])
    con = sqlite3.connect(path)
    cur = con.cursor()
    dbo = con if handle == "connection" else cur if handle == "cursor" else (lambda: con.cursor())
    contents = [tuple(r) for r in case["prior"]]
    durable = list(contents)
    ctx.label("handle:" + handle, "loads:%d" % len(case["loads"]))
    flags = [c for _, _, c in case["loads"]]
    ctx.nontrivial(any(not a and b for a, b in zip(flags, flags[1:])))   # a staged load followed by a committing one
    try:
        for i, (op, rows, commit) in enumerate(case["loads"]):
            fn = etl.todb if op == "todb" else etl.appenddb
            try:
                fn([list(hdr)] + [list(r) for r in rows], dbo, "t", commit=commit)
            except Exception as ex:
                return exc_fail("sequence/%s/%s" % (op, handle), ex)
            contents = ([] if op == "todb" else contents) + [tuple(r) for r in rows]
            if commit:
                durable = list(contents)
            try:
                seen = _read(path)
            except Exception as ex:
                return Fail("sequence/%s/fresh-connection-blocked" % handle, "after load %d: %r" % (i, ex))
            if not codec.strict_eq(seen, durable):
                return Fail("sequence/%s/%s" % (handle, "staged-work-lost" if commit else "visible-before-commit"),
                            "after load %d of %r (prior %r) via one %s a fresh connection sees %r, expected %r"
                            % (i, case["loads"], case["prior"], handle, seen, durable))
        con.commit()
        seen = _read(path)
        if not codec.strict_eq(seen, contents):
            return Fail("sequence/%s/final" % handle, "after %r (prior %r) and the caller's commit a fresh connection sees %r, expected %r"
                        % (case["loads"], case["prior"], seen, contents))
    finally:
        con.close()
    return None


SUBS = [Sub("loads", check, strategy=case, quick=2400, thorough=40000),
        Sub("sequences", check_seq, strategy=seq_case, quick=600, thorough=8000),
        Sub("large", check_large, enumerate=large_cases)]
KNOWN = {}

# the method interface reaches the same functions (shared exhaustive sub-check, see pv/fluent.py)
from pv import fluent  # noqa: E402
SUBS.append(fluent.sub(ID))
RULE += fluent.RULE
