"""C18 - temporary files live exactly as long as something can still read them."""
import gc
import os
import tempfile

import petl as etl
from hypothesis import strategies as st

from pv import gen, codec
from pv import scale
from pv.core import Sub, Fail, exc_fail
from pv.probes import Failing, Boom, BOOMS, BOOM_KINDS

ID = "C18"
LEVEL = "exploration"
RULE = ("Model-based history generation: a case is (view kind: sort / sort reverse / join / complement / distinct / aggregate / "
        "mergesort / duplicates / fromdicts on a generator; nrows; buffersize; cache; optional source failure at row i) plus a "
        "history of <=20 steps over up to 3 iterator slots: new_iter, advance(m), exhaust, drop_iter, drop_view, fresh_pass, "
        "where advance/drop pick among the LIVE iterators. Invariants after every step: every row obtained from any iterator "
        "(also one that outlives its view, also passes served from the file cache) is the next row of the reference sequence; "
        "a source failure surfaces as the injected exception; whenever the history holds neither the view nor any iterator, the "
        "private temp directory is empty after gc.collect(); same at the end. Non-trivial = temp files were actually observed "
        "in the directory AND (an iterator was abandoned mid-way, or the view was released while an iterator was live, or the "
        "source failed). A run whose non-trivial fraction is below 20% is a harness error (generator starved). Distinct by digest.")
ASSUMPTIONS = [
    "relies on CPython reference counting plus an explicit gc.collect(); process kills are outside the statement ('released')",
    "the harness keeps no hidden references: objects live only in local dictionaries that the history empties, tracebacks are dropped",
    "temp files are observed in a private directory passed as tempdir= (and installed as tempfile.tempdir for fromdicts)",
]
NONTRIVIAL_FLOOR = {"histories": 0.2}

KINDS = ["sort", "sort_reverse", "join", "complement", "distinct", "aggregate", "mergesort", "duplicates", "fromdicts", "fromdicts",
         "sort", "fromdicts", "unique", "conflicts", "intersection", "leftjoin", "lookupjoin", "antijoin", "rowreduce", "fold",
         "groupselectlast", "groupselectmax", "mergeduplicates", "rowgroupmap", "pivot", "unjoin"]
OTHER = [["k", "w"]] + [[i, i * 10] for i in range(5)]


class _Unpicklable(object):
    """A cell value that sorts and compares like its payload but cannot be pickled."""

    def __init__(self, v):
        self.v = v

    def __reduce__(self):
        raise TypeError("cannot pickle this cell")

    def __eq__(self, other):
        return isinstance(other, _Unpicklable) and other.v == self.v

    def __hash__(self):
        return hash(self.v)

    def __repr__(self):
        return "U(%r)" % (self.v,)


def _rows(n):
    return [["k", "v"]] + [[(i * 7) % 5, i] for i in range(n)]


@st.composite
def case(draw, tier):
    kind = draw(st.sampled_from(KINDS))
    n = draw(gen.sizes(1, 9 if tier == "quick" else 16)) if draw(st.integers(0, 9)) else 0
    bs = draw(st.sampled_from([2, 1, 3, 2, 1, 2, 1, 3, max(1, n - 1), max(1, n), n + 1]))
    c = {"kind": kind, "n": n, "buffersize": bs, "cache": draw(st.booleans()),
         "fail_at": draw(st.one_of(st.none(), st.none(), st.none(), st.integers(0, n + 1), st.integers(max(0, n - 1), n + 1))),
         # alternatively data row i carries a cell that cannot be written to a chunk file (the spill itself fails there)
         "unpicklable_at": draw(st.one_of(st.none(), st.none(), st.none(), st.integers(0, max(0, n - 1)))),
         "fail_kind": draw(st.sampled_from(BOOM_KINDS))}
    if c["fail_at"] is not None or kind == "fromdicts":
        c["unpicklable_at"] = None
    nsteps = draw(gen.sizes(2, 20))
    # openings: the first iterator is started (a sort only spills once a data row is requested); or a pass is
    # completed first (so that a cache exists) and a second iterator is created and has read at most its header
    steps = draw(st.sampled_from([
        [["new"], ["adv", 0, 2]],
        [["new"], ["exhaust", 0, 0], ["new"], ["adv", 0, 1]],
        [["new"], ["exhaust", 0, 0], ["new"]],
        [["new"], ["new"], ["adv", 0, 2]],
        # an idle iterator created before any cache exists, a completed pass, a third iterator that has read only its
        # header from the cache; when the idle one is started it re-sorts and replaces the cache under the third one
        [["new"], ["new"], ["exhaust", 1, 0], ["new"], ["adv", 1, 1]],
        [["new"], ["new"], ["exhaust", 1, 0], ["new"], ["adv", 1, 1], ["adv", 0, 2], ["adv", 1, 4]],
        # a leader and a lagging iterator over one spill file: the lagger reads behind the end, then the leader appends
        [["new"], ["new"], ["adv", 0, 3], ["adv", 1, 2], ["adv", 0, 2], ["adv", 1, 1], ["adv", 0, 1]],
        [["new"], ["adv", 0, 3], ["new"], ["adv", 1, 1], ["adv", 0, 1], ["adv", 1, 1], ["adv", 0, 1], ["dropview", 0, 0]],
    ]))
    steps = [list(x) for x in steps]
    for _ in range(nsteps):
        k = draw(st.sampled_from(["adv", "adv", "adv", "new", "drop", "drop", "exhaust", "dropview", "fresh"]))
        steps.append([k, draw(st.integers(0, 5)), draw(st.sampled_from([1, 2, 1, 3, 4]))])
    c["steps"] = steps
    return c


def _build(kind, src, td, bs, cache):
    kw = dict(buffersize=bs, tempdir=td, cache=cache)
    if kind == "sort":
        return etl.sort(src, "k", **kw)
    if kind == "sort_reverse":
        return etl.sort(src, "k", reverse=True, **kw)
    if kind == "join":
        return etl.join(src, OTHER, key="k", **kw)
    if kind == "complement":
        return etl.complement(src, [["k", "v"], [0, 0], [4, 2]], **kw)
    if kind == "distinct":
        return etl.distinct(src, "k", **kw)
    if kind == "aggregate":
        return etl.aggregate(src, "k", list, "v", **kw)
    if kind == "mergesort":
        return etl.mergesort(src, [["k", "v"], [1, -1], [3, -2], [0, -3]], key="k", **kw)
    if kind == "duplicates":
        return etl.duplicates(src, "k", **kw)
    if kind == "unique":
        return etl.unique(src, "k", **kw)
    if kind == "conflicts":
        return etl.conflicts(src, "k", **kw)
    if kind == "intersection":
        return etl.intersection(src, [["k", "v"], [0, 0], [4, 2], [1, 3]], **kw)
    if kind == "leftjoin":
        return etl.leftjoin(src, OTHER, key="k", **kw)
    if kind == "lookupjoin":
        return etl.lookupjoin(src, OTHER, key="k", **kw)
    if kind == "antijoin":
        return etl.antijoin(src, [["k", "w"], [0, 0]], key="k", **kw)
    if kind == "rowreduce":
        return etl.rowreduce(src, "k", lambda k, rows: [k, len(list(rows))], header=["k", "n"], **kw)
    if kind == "fold":
        return etl.fold(src, "k", lambda a, b: a, "v", **kw)
    if kind == "groupselectlast":
        return etl.groupselectlast(src, "k", **kw)
    if kind == "groupselectmax":
        return etl.groupselectmax(src, "k", "v", **kw)
    if kind == "mergeduplicates":
        return etl.mergeduplicates(src, "k", **kw)
    if kind == "rowgroupmap":
        return etl.rowgroupmap(src, "k", lambda k, rows: [(k, r[1]) for r in rows], header=["k", "v"], **kw)
    if kind == "pivot":
        return etl.pivot(src, "v", "k", "v", len, **kw)
    if kind == "unjoin":
        return etl.unjoin(src, "v", key="k", **kw)[1]
    raise KeyError(kind)


def _gen_dicts(rows, fail_at, fail_kind="plain"):
    hdr = rows[0]
    for i, r in enumerate(rows[1:], 1):
        if fail_at is not None and i == fail_at:
            raise BOOMS[fail_kind](i)
        yield dict(zip(hdr, r))
    if fail_at is not None and fail_at == len(rows):
        raise BOOMS[fail_kind](fail_at)


def check(case, ctx):
    b = scale.derive(case, odds=15, sizes=[300, 500], wide=False)
    if b and case["n"]:
        # at scale: hundreds of rows through more than a hundred chunk files (fromdicts: thousands of rows in the spill
        # file); every "adv" of the history advances a block of rows; a fault, if any, moves along
        n_ = 2500 if case["kind"] == "fromdicts" else b["rows"]
        stride = max(1, n_ // 7)
        fa = case["fail_at"]
        case = dict(case, n=n_, buffersize=(2, 3)[b["rows"] % 2], unpicklable_at=None,
                    fail_at=None if fa is None else min(n_ + 1, fa * stride),
                    steps=[[st[0], st[1], st[2] * stride] if st[0] == "adv" and len(st) > 2 else list(st) for st in case["steps"]])
        scale.label(ctx, b)
    kind, n, bs, cache, fail_at = case["kind"], case["n"], case["buffersize"], case["cache"], case["fail_at"]
    rows = _rows(n)
    unp = case.get("unpicklable_at")
    if unp is not None and unp < n:
        rows[1 + unp][1] = _Unpicklable(rows[1 + unp][1])
    else:
        unp = None
    td = ctx.tmpdir()
    old_td = tempfile.tempdir
    if kind == "fromdicts" and fail_at == 0:
        fail_at = None  # a generator has no header item to fail at
    # reference sequence: same operator, default arguments, plain source
    if kind == "fromdicts":
        ref = [tuple(r) for r in rows]
    else:
        ref = [tuple(r) for r in _build(kind, codec.snapshot(rows), None, None, True)]
    st_ = {"view": None, "its": {}, "pos": {}, "dead": set()}
    seen_files = False
    abandoned = released_early = failed = False
    ctx.label("kind:" + kind, "cache" if cache else "nocache", "fail" if fail_at is not None else "nofail",
              "bs:" + ("lt" if bs < n else "eq" if bs == n else "gt"))

    # the operators get tempdir=td; the process-wide default directory is a DIFFERENT private one: whatever a sort-backed
    # operator creates must land in td (an ignored tempdir= argument would show in the default directory instead)
    td_default = td + "-default"
    os.makedirs(td_default, exist_ok=True)

    def listing():
        return sorted(os.listdir(td)) + sorted("default/" + f for f in os.listdir(td_default))
    try:
        tempfile.tempdir = td if kind == "fromdicts" else td_default
        try:
            if kind == "fromdicts":
                st_["view"] = etl.fromdicts(_gen_dicts(rows, fail_at, case.get("fail_kind", "plain")), header=["k", "v"])
            else:
                src = Failing(codec.snapshot(rows), fail_at, case.get("fail_kind", "plain")) if fail_at is not None else codec.snapshot(rows)
                st_["view"] = _build(kind, src, td, bs, cache)
        except Exception as ex:
            return exc_fail(kind + "/construct", ex)
        nextslot = 0
        for step in case["steps"]:
            k = step[0]
            live = sorted(s for s in st_["its"] if s not in st_["dead"])
            if k in ("adv", "exhaust", "drop") and not live:
                k = "new"
            if k in ("new", "fresh") and st_["view"] is None:
                continue
            if k == "new":
                if len(st_["its"]) >= 3:
                    continue
                st_["its"][nextslot] = iter(st_["view"])
                st_["pos"][nextslot] = 0
                nextslot += 1
            elif k in ("adv", "exhaust", "fresh"):
                if k == "fresh":
                    slot = nextslot
                    nextslot += 1
                    st_["its"][slot] = iter(st_["view"])
                    st_["pos"][slot] = 0
                    count = len(ref) + 2
                else:
                    slot = live[step[1] % len(live)]
                    count = step[2] if k == "adv" else len(ref) + 2
                it = st_["its"][slot]
                for _ in range(count):
                    try:
                        raw = next(it)
                        r = tuple(raw)
                    except StopIteration:
                        if fail_at is None and unp is None and st_["pos"][slot] != len(ref):
                            return Fail("%s/early-stop" % kind, "iterator stopped at %d of %d rows (history %r)" % (st_["pos"][slot], len(ref), case["steps"]))
                        if fail_at is not None and kind == "fromdicts" and st_["pos"][slot] <= len(ref) and st_["pos"][slot] < (fail_at if fail_at <= n else n + 1):
                            return Fail("%s/early-stop" % kind, "iterator stopped at %d before the failing row %d" % (st_["pos"][slot], fail_at))
                        st_["dead"].add(slot)
                        break
                    except Boom:
                        failed = True
                        if fail_at is None:
                            return Fail("%s/spurious-failure" % kind, "injected exception without injection")
                        st_["dead"].add(slot)
                        break
                    except TypeError as ex:
                        if unp is not None and "cannot pickle this cell" in str(ex):
                            failed = True
                            st_["dead"].add(slot)
                            break
                        return exc_fail("%s/%s" % (kind, "cache" if cache else "nocache"), ex)
                    except Exception as ex:
                        return exc_fail("%s/%s" % (kind, "cache" if cache else "nocache"), ex)
                    p = st_["pos"][slot]
                    if p >= 1 and type(raw) is not tuple:
                        # every path of these views (fresh sort, memory cache, chunk files, spill file) delivers DATA rows as tuples; a pass
                        # served from a file that hands back what was pickled (the source's own lists) is not "the same sequence"
                        return Fail("%s/row-type" % kind, "position %d: the row came as %s %r, not as a tuple (history %r)" % (p, type(raw).__name__, raw, case["steps"]))
                    if fail_at is not None and kind != "fromdicts" and p >= 1:
                        # every pass over a sort-backed view has to read the whole failing source before its first data row
                        return Fail("%s/served-despite-failing-source" % kind, "a data row %r was served although the source raises at item %d on every pass "
                                    "(a partial result of an earlier failed pass is being replayed; history %r)" % (r, fail_at, case["steps"]))
                    if (fail_at is None and unp is None) or kind == "fromdicts":
                        if p >= len(ref) or r != ref[p]:
                            return Fail("%s/wrong-row" % kind, "position %d: got %r, reference %r (history %r)" % (p, r, ref[p:p + 1], case["steps"]))
                    st_["pos"][slot] = p + 1
                if k == "fresh":
                    del st_["its"][slot]
                    st_["dead"].discard(slot)
                it = None
            elif k == "drop":
                slot = live[step[1] % len(live)]
                if 0 < st_["pos"][slot] < len(ref):
                    abandoned = True
                del st_["its"][slot]
            elif k == "dropview":
                if st_["its"] and st_["view"] is not None:
                    released_early = True
                st_["view"] = None
            if listing():
                seen_files = True
            if kind != "fromdicts" and os.listdir(td_default):
                return Fail("%s/tempdir-ignored" % kind, "a temporary file appeared in the default directory although tempdir= names another: %r"
                            % (os.listdir(td_default),))
            if st_["view"] is None and not st_["its"]:
                gc.collect()
                left = listing()
                if left:
                    return Fail("%s/files-outlive-users" % kind, "no view and no iterator is held, yet the temp directory holds %r (history %r)" % (left, case["steps"]))
        st_["view"] = None
        st_["its"].clear()
        gc.collect()
        left = listing()
        if left:
            return Fail("%s/files-outlive-users" % kind, "everything released at the end, yet the temp directory holds %r (history %r, n=%d bs=%d cache=%r fail_at=%r)"
                        % (left, case["steps"], n, bs, cache, fail_at))
    finally:
        tempfile.tempdir = old_td
        st_["view"] = None
        st_["its"].clear()
        gc.collect()
        import shutil
        shutil.rmtree(td_default, ignore_errors=True)
    ctx.nontrivial(seen_files and (abandoned or released_early or failed))
    ctx.label("files-seen" if seen_files else "no-files")
    return None


SUBS = [Sub("histories", check, strategy=case, quick=6000, thorough=50000)]
KNOWN = {}

# cases at scale (see pv/scale.py)
RULE += scale.RULE
