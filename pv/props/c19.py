"""C19 - the failonerror policy decides exactly what a failing conversion becomes."""
import collections

import petl as etl
import petl.config as cfg
from hypothesis import strategies as st

from pv import gen, codec
from pv import scale
from pv.core import Sub, Fail, exc_fail

ID = "C19"
LEVEL = "exploration"
RULE = ("Hypothesis draws a table of unique cell tokens, an operator (convert with one/several fields, convertall, fieldmap, "
        "rowmap, rowmapmany), a failing set (any subset of (row, field) positions for the cell-level operators, any subset of "
        "rows for rowmap, and for rowmapmany a per-row 'fail after j yielded rows'), the exception type raised (custom, "
        "KeyError, ValueError, TypeError, AttributeError, ZeroDivisionError, LookupError, IndexError, StopIteration), for the row "
        "mappers whether the result is a list or a lazy iterable that fails while petl builds the row from it, the policy False/True/'inline' given as "
        "argument or through petl.config.failonerror, and errorvalue. Oracle: a reference model of the three policies (False: "
        "errorvalue in the cell / row dropped, rows a generator produced before failing kept; True: every earlier row "
        "delivered, then exactly that exception when the failing row is requested; 'inline': the exception object in the cell "
        "or as the 1-cell row), which also makes non-failing rows and cells identical under all three policies. Non-trivial = "
        "the failing set is non-empty and not everything. Distinct by digest.")
ASSUMPTIONS = [
    "converters raise ordinary Exception subclasses incl. StopIteration (not GeneratorExit/BaseException); a StopIteration may surface wrapped (PEP 479)",
    "petl.config.failonerror is read when the view is constructed (as documented) and restored by the harness afterwards",
]


class Boom19(Exception):
    pass


EXC = {"custom": Boom19, "KeyError": KeyError, "ValueError": ValueError, "TypeError": TypeError, "AttributeError": AttributeError,
       "ZeroDivisionError": ZeroDivisionError, "LookupError": LookupError, "IndexError": IndexError,
       # next() on an exhausted iterator inside a converter: an ordinary failure of that cell, never the end of a row or table
       "StopIteration": StopIteration}
OPS = ["convert", "convert-multi", "convert-chain", "convertall", "fieldmap", "rowmap", "rowmapmany",
       # the convenience forms hand failonerror / errorvalue on to convert
       "format", "interpolate", "formatall", "interpolateall"]
FORMS = {"format": ("{:d}", ValueError), "formatall": ("{:d}", ValueError), "interpolate": ("%d", TypeError), "interpolateall": ("%d", TypeError)}


@st.composite
def case(draw, tier):
    nf = draw(st.integers(1, 3))
    n = draw(gen.sizes(0, 5 if tier == "quick" else 9))
    op = draw(st.sampled_from(OPS))
    c = {"op": op, "nf": nf, "n": n, "policy": draw(st.sampled_from([False, True, "inline"])), "via_config": draw(st.booleans()),
         "exc": draw(st.sampled_from(sorted(EXC))), "errorvalue": draw(st.sampled_from([None, "ERR", 0])),
         "exc_cells": draw(st.booleans()),
         # rowmap/rowmapmany: the mapper hands back a lazy iterable (generator) that fails while petl builds the row from it
         "lazy": draw(st.booleans()),
         # fieldmap: an output field is added to the caller's mappings object after the view was first used
         "late_mapping": draw(st.integers(0, 3)) == 0,
         "plain_fn": draw(st.booleans()),
         # fieldmap / rowmap / rowmapmany: the input rows are Record objects made under OTHER field names (the output of a
         # records-bearing view whose header was renamed downstream); the mappers read the row by the CURRENT names
         "record_rows": draw(st.integers(0, 3)) == 0,
         # convert: pass_row=True - the converter is handed (value, row)
         "pass_row": draw(st.integers(0, 3)) == 0,
         # convert: rows left out by where= (their cells may well be ones the converter fails on)
         "skip_rows": sorted(draw(st.lists(st.integers(0, max(0, n - 1)), max_size=2, unique=True))) if (n and draw(st.integers(0, 2)) == 0) else [],
         # fieldmap: data rows cut short (row index -> remaining length >= 1)
         "short": dict((str(draw(st.integers(0, n - 1))), draw(st.integers(1, nf))) for _ in range(draw(st.integers(0, 2)))) if n else {}}
    cells = [(r, f) for r in range(n) for f in range(nf)]
    if op == "convert-chain" and nf < 2:
        op = c["op"] = "convert-multi"
    if op in ("convert", "convert-multi", "convert-chain", "convertall", "fieldmap") or op in FORMS:
        c["failing"] = [list(x) for x in draw(st.lists(st.sampled_from(cells), unique=True, max_size=len(cells)))] if cells else []
        c["fields"] = sorted(draw(st.lists(st.integers(0, nf - 1), min_size=1, max_size=nf, unique=True))) if op not in ("convert", "format", "interpolate") else [draw(st.integers(0, nf - 1))]
    elif op == "rowmap":
        c["failing"] = sorted(draw(st.lists(st.integers(0, n - 1), unique=True, max_size=n))) if n else []
    else:
        # rowmapmany: per row (rows produced, fails afterwards?)
        c["plan"] = [[draw(st.integers(0, 2)), draw(st.booleans())] for _ in range(n)]
    return c


def _tok(r, f):
    return "r%dc%d" % (r, f)


_LOOSE = {"on": False}   # format()/interpolate() raise Python's own ValueError / TypeError: only the type can be matched


def _same_exc(e, cls, token):
    # token: one token, or (a row with several failing cells: the statement says "the exception surfaces", not which of
    # them) a tuple of tokens any of which may be the one
    toks = token if isinstance(token, tuple) else (token,)
    return type(e) is cls and (_LOOSE["on"] or any(e.args[:1] == (t,) for t in toks))


def _surfaced(e, cls, token):
    """The converter's exception surfaced: itself, or (a StopIteration crossing a generator frame becomes a RuntimeError,
    PEP 479) as the cause of what was raised."""
    seen = 0
    while e is not None and seen < 6:
        if _same_exc(e, cls, token):
            return True
        e = e.__cause__ or e.__context__
        seen += 1
    return False


def _at_scale(case, b):
    """The same case on N rows: the failing pattern of the small case either repeats every n rows ('cycle') or sits in the
    last n rows only, after N - n rows that do not fail ('uniform-first')."""
    n, N = case["n"], b["rows"]
    if not n:
        return case
    off = N - n

    def rows_of(r0):
        return [r for r in range(N) if r % n == r0] if b["mode"] == "cycle" else [off + r0]
    c = dict(case, n=N, skip_rows=[], short={}, late_mapping=False, exc_cells=False)
    if "failing" in case and case["failing"] and isinstance(case["failing"][0], list):
        c["failing"] = [[r, f] for r0, f in case["failing"] for r in rows_of(r0)]
    elif "failing" in case:
        c["failing"] = sorted(r for r0 in case["failing"] for r in rows_of(r0))
    if "plan" in case:
        c["plan"] = [case["plan"][r % n] if b["mode"] == "cycle" else (case["plan"][r - off] if r >= off else [1, False]) for r in range(N)]
    return c


def check(case, ctx):
    b = scale.derive(case, odds=20, sizes=[130, 300, 600], wide=False)
    if b and case["n"]:
        case = _at_scale(case, b)
        scale.label(ctx, b)
    op, nf, n, policy = case["op"], case["nf"], case["n"], case["policy"]
    cls = EXC[case["exc"]]
    errorvalue = case["errorvalue"]
    hdr = ["f%d" % i for i in range(nf)]
    tbl = [hdr] + [[_tok(r, f) for f in range(nf)] for r in range(n)]
    # for fieldmap some source cells of fields that are only carried over hold exception OBJECTS (as a view run with
    # failonerror='inline' upstream would deliver them): they are values and must come through under every policy
    carried = {}
    if case["op"] == "fieldmap" and case.get("exc_cells"):
        for r in range(n):
            if r % 2 == 0:
                carried[r] = ValueError("carried-%d" % r)
    kw = {}
    if not case["via_config"]:
        kw["failonerror"] = policy
    old = cfg.failonerror
    ctx.label("op:" + op, "policy:%s" % policy, "via-config" if case["via_config"] else "argument", "exc:" + case["exc"])
    try:
        other = {False: True, True: "inline", "inline": False}[policy]
        # via config: the default is the policy; via argument: the default says something else and must lose
        cfg.failonerror = policy if case["via_config"] else other
        cellops = op in ("convert", "convert-multi", "convert-chain", "convertall", "fieldmap") or op in FORMS
        _LOOSE["on"] = op in FORMS
        if op in FORMS:
            cls = FORMS[op][1]
        if cellops:
            failing = set(_tok(r, f) for r, f in case["failing"])
            fields = list(range(nf)) if op in ("convertall", "formatall", "interpolateall") else case["fields"]
            failing = set(t for t in failing if int(t.split("c")[1]) in fields)
            ctx.nontrivial(0 < len(failing) < n * len(fields))

            skip_rows = set(case.get("skip_rows") or []) if op in ("convert", "convert-multi") else set()
            short = dict((int(k), v) for k, v in (case.get("short") or {}).items()) if op == "fieldmap" else {}

            def conv(v):
                if v in failing:
                    raise cls(v)
                return ("ok", v)
            chain_ev = {}
            okval = lambda r, f: ("ok", _tok(r, f))  # noqa
            if op in FORMS:
                fmt = FORMS[op][0]
                # a failing cell holds text (the format code wants a number), every other cell of the formatted fields an int
                tbl = [hdr] + [[(_tok(r, f) if (f not in fields or _tok(r, f) in failing) else 1000 * r + f) for f in range(nf)] for r in range(n)]
                okval = lambda r, f: str(1000 * r + f)  # noqa
                fn = getattr(etl, op)
                view = fn(tbl, fmt, errorvalue=errorvalue, **kw) if op.endswith("all") else fn(tbl, hdr[fields[0]], fmt, errorvalue=errorvalue, **kw)
            elif op == "convert-chain":
                # convert(convert(t, f0, errorvalue=X), f1, errorvalue=Y): two views, each with its own errorvalue
                fields = fields[:2] if len(fields) >= 2 else [0, 1]
                failing = set(t for t in failing if int(t.split("c")[1]) in fields)
                inner_ev = ("inner", errorvalue)
                chain_ev = {fields[0]: inner_ev, fields[1]: errorvalue}
                inner = etl.convert(tbl, hdr[fields[0]], conv, errorvalue=inner_ev, **kw)
                view = etl.convert(inner, hdr[fields[1]], conv, errorvalue=errorvalue, **kw)
            elif op in ("convert", "convert-multi"):
                wkw = dict(kw)
                if case.get("pass_row"):
                    # pass_row=True: the converter gets the value and the whole (original) row, under every policy
                    conv1 = conv

                    def conv(v, row):   # noqa
                        return conv1(v) + (tuple(row), row[hdr[0]])
                    okval = lambda r, f: ("ok", _tok(r, f), tuple(tbl[1 + r]), tbl[1 + r][0])  # noqa
                    wkw["pass_row"] = True
                    ctx.label("pass-row")
                spec = hdr[fields[0]] if op == "convert" else dict((hdr[f], conv) for f in fields)
                if skip_rows:
                    # where=: the converter is only ever applied to the selected rows - a value it would choke on in a row
                    # that is not selected is none of its business, under any policy
                    wkw["where"] = lambda rec: int(rec[0][1:].split("c")[0]) not in skip_rows
                    ctx.label("where")
                view = etl.convert(tbl, spec, conv, errorvalue=errorvalue, **wkw) if op == "convert" else etl.convert(tbl, spec, errorvalue=errorvalue, **wkw)
            elif op == "convertall":
                view = etl.convertall(tbl, conv, errorvalue=errorvalue, **kw)
            else:
                m = collections.OrderedDict((hdr[f], (hdr[f], conv)) for f in fields)
                if short and not carried:
                    tbl = [tbl[0]] + [row[:short[i]] if i in short else row for i, row in enumerate(tbl[1:])]
                    ctx.label("short-rows")
                elif short:
                    short = {}
                if carried:
                    m["carried"] = "xc"
                    tbl = [hdr + ["xc"]] + [row + [carried.get(i, "plain")] for i, row in enumerate(tbl[1:])]
                if case.get("record_rows") and n:
                    tbl = [tbl[0]] + list(etl.records([["zz%d" % i for i in range(len(tbl[0]))]] + tbl[1:]))
                    ctx.label("record-rows")
                view = etl.fieldmap(tbl, m, errorvalue=errorvalue, **kw)
                if case.get("late_mapping"):
                    # the view is used once, then the caller adds an output
                    # field to the mappings object the view was given: a field that never fails
                    try:
                        for _ in view:
                            pass
                    except Exception:
                        pass   # (policy True and a failing row: the pass ends there)
                    m["late"] = (hdr[0], lambda v: ("late", v))
                    ctx.label("late-mapping")
            outfields = fields if op == "fieldmap" else list(range(nf))
            exp_hdr = tuple(hdr[f] for f in outfields) + (("carried",) if carried else ()) + (("late",) if (op == "fieldmap" and case.get("late_mapping")) else ())
            exp_rows = []   # list of ('row', cells) or ('raise', token)
            for r in range(n):
                cells = []
                stop = None
                for f in outfields:
                    t = _tok(r, f)
                    if r in skip_rows:
                        cells.append(("VAL", t))
                        continue
                    if r in short and f >= short[r]:
                        cells.append(("VAL", ("ok", None)))   # the mapping function is handed None for the absent cell
                        continue
                    if f in fields and t in failing:
                        if policy is True:
                            # every failing converted cell of this row is a candidate
                            stop = tuple(_tok(r, g) for g in outfields if g in fields and _tok(r, g) in failing
                                         and not (r in short and g >= short[r]))
                            break
                        cells.append(("EXC", t) if policy == "inline" else ("VAL", chain_ev.get(f, errorvalue)))
                    elif f in fields:
                        cells.append(("VAL", okval(r, f)))
                    else:
                        cells.append(("VAL", t))
                if stop:
                    exp_rows.append(("raise", stop))
                    break
                if carried:
                    cells.append(("SAME", carried.get(r, "plain")))
                if op == "fieldmap" and case.get("late_mapping"):
                    cells.append(("VAL", ("late", _tok(r, 0))))
                exp_rows.append(("row", cells))
        elif op == "rowmap":
            failing = set(case["failing"])
            ctx.nontrivial(0 < len(failing) < n)

            lazy = bool(case.get("lazy")) and cls is not StopIteration
            if lazy:
                ctx.label("lazy-mapper-result")

            if case.get("record_rows") and n:
                tbl = [hdr] + list(etl.records([["zz%d" % i for i in range(nf)]] + tbl[1:]))
                ctx.label("record-rows")

            def mapper(rec):
                r = int(rec[hdr[0]][1:].split("c")[0])
                if lazy:
                    def cells():
                        for j, v in enumerate(rec):
                            if r in failing and j == len(rec) - 1:
                                raise cls(_tok(r, 0))
                            yield ("ok", v)
                    return cells()
                if r in failing:
                    raise cls(_tok(r, 0))
                return [("ok", v) for v in rec]
            view = etl.rowmap(tbl, mapper, header=hdr, **kw)
            exp_hdr = tuple(hdr)
            exp_rows = []
            for r in range(n):
                if r in failing:
                    if policy is True:
                        exp_rows.append(("raise", _tok(r, 0)))
                        break
                    if policy == "inline":
                        exp_rows.append(("row", [("EXC", _tok(r, 0))]))
                else:
                    exp_rows.append(("row", [("VAL", ("ok", _tok(r, f))) for f in range(nf)]))
        else:
            plan = case["plan"]
            ctx.nontrivial(any(f for _, f in plan) and not all(f for _, f in plan))

            lazy = bool(case.get("lazy")) and cls is not StopIteration
            if lazy:
                ctx.label("lazy-mapper-result")

            if case.get("record_rows") and n:
                tbl = [hdr] + list(etl.records([["zz%d" % i for i in range(nf)]] + tbl[1:]))
                ctx.label("record-rows")

            def genrows(rec):
                r = int(rec[hdr[0]][1:].split("c")[0])
                k, fails = plan[r]
                for j in range(k):
                    yield (x for x in [r, j]) if lazy else [r, j]
                if fails:
                    if lazy:
                        def bad():
                            yield r
                            raise cls(_tok(r, 0))
                        yield bad()   # a row that fails while it is being built
                    else:
                        raise cls(_tok(r, 0))
            plainfn = bool(case.get("plain_fn"))
            if plainfn:
                # the row generator is a plain function handing back a list (as in petl's own examples): it fails before it
                # has produced anything
                ctx.label("plain-function-rowgenerator")

                def genrows(rec):  # noqa: F811
                    r = int(rec[hdr[0]][1:].split("c")[0])
                    k, fails = plan[r]
                    if fails:
                        raise cls(_tok(r, 0))
                    return [[r, j] for j in range(k)]
            view = etl.rowmapmany(tbl, genrows, header=["r", "j"], **kw)
            exp_hdr = ("r", "j")
            exp_rows = []
            for r in range(n):
                k, fails = plan[r]
                for j in range(0 if (plainfn and fails) else k):
                    exp_rows.append(("row", [("VAL", r), ("VAL", j)]))
                if fails:
                    if policy is True:
                        exp_rows.append(("raise", _tok(r, 0)))
                        break
                    if policy == "inline":
                        exp_rows.append(("row", [("EXC", _tok(r, 0))]))
    except Exception as ex:
        cfg.failonerror = old
        return exc_fail(op + "/construct", ex)
    finally:
        cfg.failonerror = old
    # the config default was captured at construction: changing it now must not matter
    cfg.failonerror = other
    try:
        it = iter(view)
        try:
            h = tuple(next(it))
        except StopIteration:
            return Fail(op + "/no-header", "no header row")
        except Exception as ex:
            return exc_fail(op + "/header", ex)
        if h != exp_hdr:
            return Fail(op + "/header", "header %r expected %r" % (h, exp_hdr))
        for i, (kind, payload) in enumerate(exp_rows):
            try:
                row = next(it)
            except StopIteration:
                return Fail("%s/%s/missing-row" % (op, policy), "output ended after %d rows, expected %r next (case %r)" % (i, (kind, payload), case))
            except Exception as ex:
                if kind == "raise" and _surfaced(ex, cls, payload):
                    break
                if kind == "raise":
                    return Fail("%s/%s/wrong-exception" % (op, policy), "raised %r, expected %s(%r)" % (ex, cls.__name__, payload))
                return Fail("%s/%s/raised" % (op, policy), "raised %r at output row %d where %r was expected (case %r)" % (ex, i, payload, case))
            if kind == "raise":
                return Fail("%s/%s/not-raised" % (op, policy), "row %r delivered where %s(%r) should have surfaced" % (tuple(row), cls.__name__, payload))
            row = tuple(row)
            if len(row) != len(payload):
                return Fail("%s/%s/row-shape" % (op, policy), "output row %d is %r, expected %r" % (i, row, payload))
            for cell, (ck, cv) in zip(row, payload):
                if ck == "SAME":
                    if cell is not cv and cell != cv:
                        return Fail("%s/%s/carried-cell" % (op, policy), "a carried-over cell %r came out as %r (row %d)" % (cv, cell, i))
                elif ck == "EXC":
                    if not (isinstance(cell, BaseException) and _surfaced(cell, cls, cv)):
                        return Fail("%s/%s/inline-cell" % (op, policy), "cell %r where %s(%r) was expected (row %d)" % (cell, cls.__name__, cv, i))
                elif isinstance(cell, BaseException) or cell != cv or type(cell) is not type(cv):
                    return Fail("%s/%s/cell" % (op, policy), "output row %d: cell %r, expected %r (row %r)" % (i, cell, cv, row))
        else:
            try:
                extra = next(it)
                return Fail("%s/%s/extra-row" % (op, policy), "extra row %r after the expected %d rows" % (tuple(extra), len(exp_rows)))
            except StopIteration:
                pass
            except Exception as ex:
                return Fail("%s/%s/raised-at-end" % (op, policy), "raised %r after all rows" % (ex,))
        # the view seen through len(): as many items as a pass delivers (header included), and under the policy True the
        # failure surfaces there as well
        will_raise = any(k == "raise" for k, _ in exp_rows)
        try:
            ln = len(view)
        except Exception as ex:
            if not (will_raise and _surfaced(ex, cls, [p for k, p in exp_rows if k == "raise"][0])):
                return Fail("%s/%s/len-raised" % (op, policy), "len(view) raised %r" % (ex,))
        else:
            if will_raise:
                return Fail("%s/%s/len-hides-failure" % (op, policy), "len(view) returned %r although a pass raises" % (ln,))
            if ln != 1 + len(exp_rows):
                return Fail("%s/%s/len" % (op, policy), "len(view) is %r but a pass delivers %d items" % (ln, 1 + len(exp_rows)))
    finally:
        cfg.failonerror = old
    return None


SUBS = [Sub("policies", check, strategy=case, quick=12000, thorough=200000)]
KNOWN = {}

# cases at scale (see pv/scale.py)
RULE += scale.RULE
