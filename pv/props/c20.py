"""C20 - tables with a header and no data rows are handled by every operator.

Finite domain, enumerated exhaustively: (catalogue entry) x (header shape) x (non-empty subset of
the entry's inputs replaced by a header-only table) x (filler table for the other inputs)."""
import itertools

from pv import catalog, codec
from pv.core import Sub, Fail, exc_fail
from pv.ref import base as R, joins as RJ, setops as RS, rowops as RO
from pv.ref.setops import multiset

ID = "C20"
LEVEL = "exploration"
RULE = ("Exhaustive enumeration of (catalogue entry x header shape x non-empty subset of inputs made header-only x "
        "filler table for the remaining inputs), each also after a header peek, with the sources emptied only after the view "
        "was first used, and (sort-backed entries) with petl.config.sort_buffersize = 1 and a counting pass before two "
        "further passes, and with 150-row fillers sorted through 75 chunk files; plus mergesort over 33 / 40 / 70 inputs of which "
        "one, at every position, is header-only. Oracle: no exception, and the zero-row value of the entry: the "
        "reference model where one is attached (joins, set operations, cat/stack/annex, sorts, key-less aggregates), "
        "a literal where the header depends on data, otherwise 'same header as on a non-empty input of the same "
        "shape and no data rows'. Every case is non-trivial by construction (trivially small inputs are the point); "
        "distinct = distinct (entry, shape, subset, filler).")
ASSUMPTIONS = [
    "operators are exercised with the fixed valid arguments of pv/catalog.py",
    "valuecount (0/0 by definition) and limits are excluded (need >= 1 row by definition)",
    "optional back ends that are not installed are out of reach",
    "an entirely empty table (no header row) is outside the statement",
]

SHAPES = [
    ("k", "j", "v", "s"),
    ("s", "v", "j", "k"),
    ("j", "k", "s", "v", "e"),
    ("e", "k", "j", "v", "s", "f"),
]
FILL = [
    [dict(k=1, j="a", v=2, s="xay", e=0, f=None), dict(k=None, j=1.0, v=None, s="b,x", e=1, f="q"),
     dict(k=1, j="a", v=3, s="", e=0, f=None), dict(k=2, j=None, v=1, s="x", e=2, f=3)],
    [dict(k="a", j=None, v=0, s="x", e=None, f=1), dict(k=None, j=None, v=None, s="", e=None, f=None),
     dict(k=None, j=2, v=5, s="xx", e=5, f=5)],
]
FIXED_SHAPE = {"validate", "recordcomplement", "recorddiff0", "recorddiff1", "setheader", "pushheader", "capture_index"}


def mk(shape, rows, cells=None):
    def val(d, f):
        kind = (cells or {}).get(f)
        return [d[f], d[f]] if kind == "pair" else {"p": d[f]} if kind == "dict" else d[f]
    return [list(shape)] + [[val(d, f) for f in shape] for d in rows]


def _rn(t, m):
    return [[m.get(f, f) for f in t[0]]] + [list(r) for r in t[1:]]


_RN = {"v": "v2", "s": "s2", "j": "j2"}


def _jref(kind, rn=_RN, **kw):
    def ref(S):
        hdr, rows, _ = RJ.ref_join(S[0], _rn(S[1], rn), kind, **kw)
        return [hdr] + rows
    return ref


def _cutb(S):
    return [list(S[0][0])] + [[r[list(S[1][0]).index(f)] for f in S[0][0]] for r in S[1][1:]]


_PERM = ("s", "v", "j", "k")


def _proj(t, fields):
    idx = [list(t[0]).index(f) for f in fields]
    return [list(fields)] + [[r[i] for i in idx] for r in t[1:]]


def _tab(hr):
    return [hr[0]] + hr[1]


REFS = {
    # name: (ref(S) -> [hdr, rows...], mode)
    "cat": (lambda S: R.ref_cat(S), "seq"),
    "cat_header": (lambda S: R.ref_cat(S, missing="M", header=["s", "k", "zz"]), "seq"),
    "stack": (lambda S: RO.ref_stack(S), "seq"),
    "annex": (lambda S: RO.ref_annex(S), "seq"),
    "sort": (lambda S: R.ref_sort(S[0], "k"), "seq"),
    "sort_none": (lambda S: R.ref_sort(S[0]), "seq"),
    "sort_reverse": (lambda S: R.ref_sort(S[0], ("k", "j"), reverse=True), "seq"),
    "mergesort": (lambda S: R.ref_sort(R.ref_cat(S), "k"), "seq"),
    "join": (_jref("inner", key="k"), "multiset"),
    "leftjoin": (_jref("left", key="k"), "multiset"),
    "rightjoin": (_jref("right", key="k"), "multiset"),
    "outerjoin": (_jref("outer", key="k"), "multiset"),
    "antijoin": (_jref("anti", key="k", squareup=False), "multiset"),
    "lookupjoin": (_jref("lookup", key="k"), "multiset"),
    "join_compound": (_jref("inner", rn={"v": "v2", "s": "s2"}, key=("k", "j")), "multiset"),
    "join_lrkey": (_jref("inner", rn={"k": "k2", "v": "v2", "s": "s2", "j": "j2"}, lkey="k", rkey="k2",
                         lprefix="l_", rprefix="r_"), "multiset"),
    "outerjoin_missing": (_jref("outer", key="k", missing="M"), "multiset"),
    "crossjoin": (lambda S: _tab(RJ.ref_crossjoin(S)), "seq"),
    "crossjoin_prefix": (lambda S: _tab(RJ.ref_crossjoin(S, prefix=True)), "seq"),
    "hashjoin": (_jref("inner", key="k"), "seq"),
    "hashjoin_nocache": (_jref("inner", key="k"), "seq"),
    "hashleftjoin": (_jref("left", key="k"), "seq"),
    "hashrightjoin": (_jref("right", key="k"), "multiset"),
    "hashantijoin": (_jref("anti", key="k", squareup=False), "seq"),
    "hashlookupjoin": (_jref("lookup", key="k"), "seq"),
    "complement": (lambda S: _tab(RS.ref_complement(S[0], S[1])), "multiset"),
    "complement_strict": (lambda S: _tab(RS.ref_complement(S[0], S[1], strict=True)), "multiset"),
    "intersection": (lambda S: _tab(RS.ref_intersection(S[0], S[1])), "multiset"),
    "recordcomplement": (lambda S: _tab(RS.ref_complement(S[0], _cutb(S))), "multiset"),
    "diff0": (lambda S: _tab(RS.ref_complement(S[1], S[0])), "multiset"),
    "diff1": (lambda S: _tab(RS.ref_complement(S[0], S[1])), "multiset"),
    "recorddiff0": (lambda S: _tab(RS.ref_complement(_proj(S[1], _PERM), _proj(S[0], _PERM))), "multiset"),
    "recorddiff1": (lambda S: _tab(RS.ref_complement(S[0], _cutb(S))), "multiset"),
    "hashcomplement": (lambda S: _tab(RS.ref_complement(S[0], S[1], ordered=False)), "seq"),
    "hashintersection": (lambda S: _tab(RS.ref_intersection(S[0], S[1], ordered=False)), "seq"),
    "hashcomplement_strict": (lambda S: _tab(RS.ref_complement(S[0], S[1], strict=True, ordered=False)), "seq"),
}


_RNK = {"k": "k2", "v": "v2", "s": "s2", "j": "j2"}


def _jnat(kind, **kw):
    def ref(S):
        hdr, rows, _ = RJ.ref_join(S[0], _proj(S[1], ("k", "v")), kind, **kw)
        return [hdr] + rows
    return ref


REFS.update({
    "leftjoin_missing_prefix": (_jref("left", key="k", missing="M", lprefix="l_", rprefix="r_"), "multiset"),
    "lookupjoin_missing": (_jref("lookup", key="k", missing="M"), "multiset"),
    "hashleftjoin_missing": (_jref("left", key="k", missing="M"), "seq"),
    "crossjoin_missing": (lambda S: _tab(RJ.ref_crossjoin(S, missing="M")), "seq"),
    "hashjoin_kw": (_jref("inner", key="k"), "seq"),
    "hashleftjoin_kw": (_jref("left", key="k"), "seq"),
    "hashrightjoin_kw": (_jref("right", key="k"), "multiset"),
    "join_natural": (_jnat("inner"), "multiset"),
    "mergesort_reverse": (lambda S: R.ref_sort(R.ref_cat(S), "k", reverse=True), "seq"),
    "mergesort_nokey": (lambda S: R.ref_sort(R.ref_cat(S)), "seq"),
    "mergesort_three": (lambda S: R.ref_sort(R.ref_cat(S), ("k", "j")), "seq"),
    "mergesort_header": (lambda S: R.ref_sort(R.ref_cat([S[0], _rn(S[1], {"v": "v2"})], missing="M", header=["k", "s", "v2", "zz"]), "k"), "seq"),
    "stack_notrim": (lambda S: RO.ref_stack(S, trim=False), "seq"),
    "stack_nopad": (lambda S: RO.ref_stack(S, pad=False, missing="M"), "seq"),
    "annex_missing": (lambda S: RO.ref_annex(S, missing="M"), "seq"),
})
for _k, _kind in (("leftjoin", "left"), ("rightjoin", "right"), ("outerjoin", "outer"), ("antijoin", "anti"), ("lookupjoin", "lookup")):
    _sq = {} if _kind != "anti" else {"squareup": False}
    REFS[_k + "_lrkey"] = (_jref(_kind, rn=_RNK, lkey="k", rkey="k2", **_sq), "multiset")
    REFS[_k + "_natural"] = (_jnat(_kind, **_sq), "multiset")


def _col(t, f):
    i = list(t[0]).index(f)
    return [r[i] for r in t[1:]]


def _addcolumn(S):
    col = _col(S[1], "v")
    rows = [tuple(r) for r in S[0][1:]]
    n = len(S[0][0])
    out = [tuple(S[0][0]) + ("z",)]
    for i in range(max(len(rows), len(col))):
        row = rows[i] if i < len(rows) else (None,) * n
        out.append(tuple(row) + (col[i] if i < len(col) else None,))
    return out


REFS["selectin_lazy"] = (lambda S: [tuple(S[0][0])] + [tuple(r) for r in S[0][1:] if r[list(S[0][0]).index("v")] in _col(S[1], "v")], "seq")
REFS["selectnotin_lazy"] = (lambda S: [tuple(S[0][0])] + [tuple(r) for r in S[0][1:] if r[list(S[0][0]).index("k")] not in _col(S[1], "k")], "seq")
REFS["addcolumn_lazy"] = (_addcolumn, "seq")


def _keyless(S, spec):
    rows = [tuple(r) for r in S[0][1:]]
    vi = list(S[0][0]).index("v")
    vs = [r[vi] for r in rows]
    _vi = catalog._vi
    if spec == "len":
        return [("value",), (len(rows),)]
    if spec == "fn":
        return [("value",), (sum(_vi(v) for v in vs),)]
    # multi-aggregation groups the rows under one constant key: no rows, no group
    return [("n", "vs")] + ([(len(rows), vs)] if rows else [])


REFS["aggregate_none_len"] = (lambda S: _keyless(S, "len"), "seq")
REFS["aggregate_none_fn"] = (lambda S: _keyless(S, "fn"), "seq")
REFS["aggregate_multi_none"] = (lambda S: _keyless(S, "multi"), "seq")


class _PassDiffers(Exception):
    pass


def run_entry(e, S, tmp, mode="fresh", mask=()):
    """mode 'peek': only the header is read first (what header(), look() or a natural join's key detection do), then the
    view is iterated; mode 'emptied': the view is built and iterated while its sources still have rows, then the sources
    in `mask` lose all their data rows (in place) and the SAME view is iterated.  Every mode ends with two full passes that
    must agree."""
    if e.has("file"):
        res = e.build(S, e.prepare(S, tmp))
    else:
        res = e.build(S)
    if e.has("nonview"):
        return e.norm(res)
    if mode in ("smallbuffer", "manychunks"):
        # (the caller has set petl.config.sort_buffersize to 1 / 2) a counting pass first, then the two passes below: three
        # passes over a sort that went through chunk files
        n = len(res)
        a = [tuple(r) for r in res]
        if n != len(a):
            raise _PassDiffers("len(view) is %d, the next pass delivers %d rows" % (n, len(a)))
    if mode == "peek":
        it = iter(res)
        next(it, None)
        del it
    elif mode == "emptied":
        for _ in res:
            pass
        for i in mask:
            del S[i][1:]
    a = [tuple(r) for r in res]
    b = [tuple(r) for r in res]
    if a != b and not e.has("random"):
        raise _PassDiffers("a second pass gave %r, the first %r" % (b, a))
    return a


def _emptied_ok(e):
    from pv import reuse
    return reuse.eligible(e) and not e.has("sorted") and not e.has("hash") and not e.has("nonview")


def enum_cases(tier):
    for name, e in catalog.ENTRIES.items():
        if e.n == 0 or e.has("needrows"):
            continue
        shapes = SHAPES[:1] if (e.empty is not None or name in FIXED_SHAPE or e.has("file")) else SHAPES
        for si, shape in enumerate(shapes):
            for r in range(1, e.n + 1):
                for mask in itertools.combinations(range(e.n), r):
                    fillers = [0] if len(mask) == e.n else range(len(FILL))
                    for fi in fillers:
                        yield {"entry": name, "shape": list(shape), "empty": list(mask), "filler": fi}
                        if not e.has("nonview") and fi == 0:
                            yield {"entry": name, "shape": list(shape), "empty": list(mask), "filler": fi, "mode": "peek"}
                            if _emptied_ok(e):
                                yield {"entry": name, "shape": list(shape), "empty": list(mask), "filler": fi, "mode": "emptied"}
                            if e.has("sorted") and si == 0:
                                yield {"entry": name, "shape": list(shape), "empty": list(mask), "filler": fi, "mode": "smallbuffer"}
                                if name in REFS and len(mask) < e.n:
                                    # the non-empty inputs have 150 rows and are sorted through 75 chunk files
                                    yield {"entry": name, "shape": list(shape), "empty": list(mask), "filler": fi, "mode": "manychunks"}
    # mergesort / merge over MANY inputs (more than any fixed fan-in), one of them header-only, at every position
    for many in (33, 40, 70):
        for pos in (0, 1, many // 2, many - 2, many - 1):
            yield {"entry": "mergesort", "shape": list(SHAPES[0]), "empty": [pos], "filler": 0, "many": many}


def check_many(case, ctx):
    import petl as etl
    shape, n, pos = tuple(case["shape"]), case["many"], case["empty"][0]
    S = [mk(shape, []) if i == pos else mk(shape, [dict(d, v=i) for d in FILL[i % len(FILL)]][:2 + i % 2]) for i in range(n)]
    ctx.nontrivial(True)
    ctx.label("entry:mergesort", "many-inputs:%d" % n)
    exp = [tuple(r) for r in R.ref_sort(R.ref_cat(S), "k")]
    try:
        got = [tuple(r) for r in etl.mergesort(*codec.snapshot(S), key="k")]
        got_p = [tuple(r) for r in etl.mergesort(*[[list(r) for r in R.ref_sort(t, "k")] for t in S], key="k", presorted=True)]
    except Exception as ex:
        return exc_fail("mergesort/many", ex)
    for name, g in (("mergesort", got), ("mergesort-presorted", got_p)):
        if g != exp:
            k = next((i for i, (a, b) in enumerate(zip(g, exp)) if a != b), min(len(g), len(exp)))
            return Fail("mergesort/many-inputs/rows", "%s over %d tables (table %d header-only): %d rows, reference %d; first difference at row %d: "
                        "%r vs %r" % (name, n, pos, len(g) - 1, len(exp) - 1, k, g[k:k + 1], exp[k:k + 1]))
    return None


def check(case, ctx):
    if case.get("many"):
        return check_many(case, ctx)
    e = catalog.get(case["entry"])
    shape = tuple(case["shape"])
    mask = set(case["empty"])
    full = [mk(shape, FILL[(case["filler"] + i) % len(FILL)], e.cells) for i in range(e.n)]
    mode = case.get("mode", "fresh")
    if mode == "manychunks":
        full = [[t[0]] + [list(t[1 + j % (len(t) - 1)]) for j in range(150)] for t in full]
    S = [mk(shape, []) if i in mask else full[i] for i in range(e.n)]
    snap = codec.snapshot(S)
    if mode == "emptied":
        S = codec.snapshot(full)   # the masked sources are emptied only after the view has been used once
    ctx.nontrivial(True)
    ctx.label("entry:" + e.name, "all-empty" if len(mask) == e.n else "some-empty", "mode:" + mode)
    import petl.config as _cfg
    _old = _cfg.sort_buffersize
    try:
        if mode == "smallbuffer":
            _cfg.sort_buffersize = 1
        if mode == "manychunks":
            _cfg.sort_buffersize = 2
        got = run_entry(e, S, ctx.tmpdir() if e.has("file") else None, mode, sorted(mask))
    except _PassDiffers as ex:
        return Fail(e.name + "/second-pass-differs", str(ex))
    except Exception as ex:
        return exc_fail(e.name, ex)
    finally:
        _cfg.sort_buffersize = _old
    if not codec.strict_eq(snap, S):
        return Fail(e.name + "/source-mutated", "sources changed")
    if e.name in REFS:
        ref, mode = REFS[e.name]
        exp = [tuple(r) for r in ref(snap)]
        ctx.label("oracle:ref")
        if not got or tuple(got[0]) != tuple(exp[0]):
            return Fail(e.name + "/header", "got %r expected %r" % (got[:1], exp[:1]))
        if mode == "seq" and got[1:] != exp[1:]:
            return Fail(e.name + "/rows", "got %r expected %r" % (got[1:], exp[1:]))
        if mode == "multiset" and multiset(got[1:]) != multiset(exp[1:]):
            return Fail(e.name + "/rows", "got %r expected %r" % (got[1:], exp[1:]))
        return None
    if len(mask) == e.n and e.empty is not None:
        ctx.label("oracle:literal")
        exp = e.empty
        if e.has("nonview"):
            ok = got == exp or (isinstance(exp, (list, tuple)) and isinstance(got, (list, tuple)) and list(got) == list(exp))
        else:
            ok = [tuple(r) for r in got] == [tuple(r) for r in exp]
        if not ok:
            return Fail(e.name + "/empty-value", "got %r expected %r" % (got, exp))
        return None
    if e.has("nonview") or e.has("dynhdr"):
        ctx.label("oracle:no-exception")
        return None
    # static header rule
    ctx.label("oracle:static-header")
    try:
        hdr_full = run_entry(e, full, ctx.tmpdir() if e.has("file") else None)[0]
    except Exception as ex:
        return exc_fail(e.name + "/nonempty", ex)
    if not got or tuple(got[0]) != tuple(hdr_full):
        return Fail(e.name + "/header", "got %r, header on non-empty input %r" % (got[:1], hdr_full))
    if len(mask) == e.n and len(got) != 1:
        return Fail(e.name + "/rows", "all inputs header-only but data rows came out: %r" % (got[1:],))
    return None


SUBS = [Sub("enumerate", check, enumerate=enum_cases, quick=0, thorough=0)]
KNOWN = {}
