"""Reference helpers written from petl's documentation: field resolution, key extraction,
squaring up, reference sort / grouping.  Nothing here calls petl."""
from pv.order import ref_key, ref_cmp


def resolve(hdr, spec):
    """Field spec -> list of indices.  Documented rule: an int below the header length is an
    index (takes priority); otherwise names are matched left to right, each header position
    used at most once."""
    flds = [str(f) for f in hdr]
    if not isinstance(spec, (list, tuple)):
        spec = (spec,)
    used = set()
    out = []
    for s in spec:
        if isinstance(s, int) and not isinstance(s, bool) and s < len(hdr):
            out.append(s)
            continue
        if isinstance(s, bool) and s < len(hdr):  # bool is an int for petl too
            out.append(int(s))
            continue
        for i, f in enumerate(flds):
            if f == s and i not in used:
                used.add(i)
                out.append(i)
                break
        else:
            raise KeyError(s)
    return out


def cell(row, i, missing=None):
    return row[i] if -len(row) <= i < len(row) else missing


def keyof(row, indices, missing=None):
    """Scalar for a single-field key, tuple for a compound key; absent cell -> missing."""
    if len(indices) == 1:
        return cell(row, indices[0], missing)
    return tuple(cell(row, i, missing) for i in indices)


def keytuple(row, indices, missing=None):
    return tuple(cell(row, i, missing) for i in indices)


def square(tbl, missing=None):
    n = len(tbl[0])
    return [tuple(tbl[0])] + [tuple((list(r) + [missing] * n)[:n]) for r in tbl[1:]]


def ref_sort(tbl, key=None, reverse=False):
    """Stable sort of the data rows (as tuples) under the reference ordering."""
    hdr = tuple(tbl[0])
    idx = list(range(len(hdr))) if key is None else resolve(hdr, key)
    rows = [tuple(r) for r in tbl[1:]]
    rows = sorted(rows, key=lambda r: ref_key(keyof(r, idx)), reverse=reverse)
    return [hdr] + rows


def ref_cat(tables, missing=None, header=None):
    """cat: union of field names in order of first appearance; rows aligned by name."""
    if header is None:
        out = []
        for t in tables:
            for f in t[0]:
                if str(f) not in out:
                    out.append(str(f))
    else:
        out = list(header)
    res = [tuple(out)]
    for t in tables:
        flds = [str(f) for f in t[0]]
        for r in t[1:]:
            o = []
            for f in out:
                if f in flds:
                    o.append(cell(r, flds.index(f), missing))
                else:
                    o.append(missing)
            res.append(tuple(o))
    return res


def is_sorted_seq(keys, reverse=False, strict=False):
    for a, b in zip(keys, keys[1:]):
        c = ref_cmp(a, b)
        if reverse:
            c = -c
        if c > 0 or (strict and c == 0):
            return False
    return True


def ref_groups(tbl, key):
    """[(keyvalue, [rows in input order])] in ascending reference order of the key.  Keys are
    grouped under the reference equivalence (== for scalars; list/tuple alike)."""
    hdr = tbl[0]
    idx = resolve(hdr, key)
    rows = sorted((tuple(r) for r in tbl[1:]), key=lambda r: ref_key(keyof(r, idx)))
    groups = []
    for r in rows:
        k = keyof(r, idx)
        if groups and ref_cmp(groups[-1][0], k) == 0:
            groups[-1][1].append(r)
        else:
            groups.append((k, [r]))
    return groups


def same_multiset(a, b):
    """Multiset equality of two row lists under == (rows may hold unhashable cells)."""
    if len(a) != len(b):
        return False
    try:
        from collections import Counter
        return Counter(a) == Counter(b)
    except TypeError:
        pass
    rest = list(b)
    for r in a:
        for i, s in enumerate(rest):
            if r == s:
                del rest[i]
                break
        else:
            return False
    return not rest
