"""Nested-loop reference of the relational joins (C06/C07/C20).  No petl imports."""
import itertools

from pv.ref.base import resolve, square, keytuple
from pv.order import ref_cmp


def natural_key(lhdr, rhdr):
    l = [str(f) for f in lhdr]
    r = [str(f) for f in rhdr]
    return [f for f in l if f in r]


def _keys(L, R, key=None, lkey=None, rkey=None):
    if key is None and lkey is None and rkey is None:
        k = natural_key(L[0], R[0])
        lkey = rkey = k
    elif key is not None:
        lkey = rkey = key
    return resolve(L[0], lkey), resolve(R[0], rkey)


def keyeq(a, b):
    """Key equality as the property states it: equal values, None equal to None; under the
    reference ordering's equivalence (so 1 == 1.0 == True, list/tuple alike)."""
    return ref_cmp(a, b) == 0


def ref_join(L, R, kind, key=None, lkey=None, rkey=None, missing=None, lprefix=None, rprefix=None,
             squareup=True):
    """kind in inner/left/right/outer/anti/lookup.  Returns (header, rows in left-table order
    [then unmatched right rows in right-table order])."""
    if squareup:
        L = square(L, missing)
        R = square(R, missing)
    else:
        L = [tuple(r) for r in L]
        R = [tuple(r) for r in R]
    lk, rk = _keys(L, R, key, lkey, rkey)
    lh, rh = L[0], R[0]
    rv = [i for i in range(len(rh)) if i not in rk]
    lhdr = [str(lprefix) + str(f) for f in lh] if lprefix is not None else list(lh)
    rhdr = [str(rprefix) + str(rh[i]) for i in rv] if rprefix is not None else [rh[i] for i in rv]
    if kind == "anti":
        hdr = tuple(lh)
    else:
        hdr = tuple(lhdr) + tuple(rhdr)
    out = []
    matched = set()
    for l in L[1:]:
        lkv = keytuple(l, lk, None)
        m = False
        for j, r in enumerate(R[1:]):
            if keyeq(lkv, keytuple(r, rk, None)):
                matched.add(j)
                if kind == "anti":
                    m = True
                    break
                if kind == "lookup" and m:
                    continue
                m = True
                out.append(tuple(l) + tuple(r[i] for i in rv))
        if not m:
            if kind == "anti":
                out.append(tuple(l))
            elif kind in ("left", "outer", "lookup"):
                out.append(tuple(l) + (missing,) * len(rv))
    if kind in ("right", "outer"):
        for j, r in enumerate(R[1:]):
            if j not in matched:
                o = [missing] * len(lh)
                for a, b in zip(lk, rk):
                    o[a] = r[b]
                out.append(tuple(o) + tuple(r[i] for i in rv))
    return hdr, out, lk


def ref_crossjoin(tables, prefix=False, missing=None):
    sq = [square(t, missing) for t in tables]
    hdr = []
    for n, t in enumerate(sq):
        if prefix:
            hdr.extend("%d_%s" % (n + 1, f) for f in t[0])
        else:
            hdr.extend(t[0])
    rows = [tuple(itertools.chain(*combo)) for combo in itertools.product(*[t[1:] for t in sq])]
    return tuple(hdr), rows
