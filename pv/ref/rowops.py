"""Cell-by-cell references of the row- and field-level transforms, written from the docstrings
(C12, C20).  No petl imports.  Tables are lists whose first item is the header; results are
lists of tuples."""
from pv.ref.base import resolve, cell, ref_cat  # noqa: F401


def sq(row, n, missing=None):
    row = tuple(row)[:n]
    return row + (missing,) * (n - len(row))


def ref_stack(tables, missing=None, trim=True, pad=True):
    hdr = tuple(tables[0][0])
    n = len(hdr)
    out = [hdr]
    for t in tables:
        for r in t[1:]:
            r = tuple(r)
            if trim:
                r = r[:n]
            if pad and len(r) < n:
                r = r + (missing,) * (n - len(r))
            out.append(r)
    return out


def ref_annex(tables, missing=None):
    hdr = tuple(f for t in tables for f in t[0])
    nmax = max(len(t) - 1 for t in tables)
    out = [hdr]
    for i in range(nmax):
        row = ()
        for t in tables:
            n = len(t[0])
            if i + 1 < len(t):
                row += sq(t[i + 1], n, missing)
            else:
                row += (missing,) * n
        out.append(row)
    return out


def ref_rename(t, mapping):
    hdr = list(t[0])
    for k, v in mapping.items():
        if isinstance(k, int) and not isinstance(k, bool):
            hdr[k] = v
        else:
            hdr = [v if f == k else f for f in hdr]
    return [tuple(hdr)] + [tuple(r) for r in t[1:]]
