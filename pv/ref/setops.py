"""Reference multiset algebra for the set operations (C08/C20).  No petl imports.
Rows are tuples of hashable cells; row identity is Python == (so (1,'x') == (1.0,'x'))."""
from collections import Counter

from pv.ref.base import ref_sort, resolve


def _rows(t):
    return [tuple(r) for r in t[1:]]


def ref_complement(a, b, strict=False, ordered=True):
    """a - b as multisets (strict: every row of a that does not occur in b at all).
    ordered=True: result in lexical reference order (the sort-based operator);
    ordered=False: in a's order (the hash operator)."""
    arows = ref_sort(a)[1:] if ordered else _rows(a)
    bcnt = Counter(_rows(b))
    out = []
    for r in arows:
        if bcnt[r] > 0:
            if not strict:
                bcnt[r] -= 1
        else:
            out.append(r)
    return tuple(a[0]), out


def ref_intersection(a, b, ordered=True):
    arows = ref_sort(a)[1:] if ordered else _rows(a)
    bcnt = Counter(_rows(b))
    out = []
    for r in arows:
        if bcnt[r] > 0:
            bcnt[r] -= 1
            out.append(r)
    return tuple(a[0]), out


def align(b, ahdr):
    """b's columns re-ordered to a's field names (record* operations)."""
    idx = resolve(b[0], list(ahdr))
    return [tuple(ahdr)] + [tuple(r[i] for i in idx) for r in b[1:]]


def ref_recordcomplement(a, b, strict=False):
    return ref_complement(a, align(b, a[0]), strict=strict)


def multiset(rows):
    return Counter(tuple(r) for r in rows)
