"""Second use of a view: one view object, iterated (fully, partially, or just its header), then its source lists are
edited, then it is iterated again.  A petl view is a lazy description of a computation on its sources: every pass must
compute the operator's definition on the sources' CURRENT contents, so a pass of the old view must equal a pass of a view
freshly built on copies of the current contents (whose correctness on fresh inputs is what the property's main sub-check
decides).  Anything a view remembers from an earlier pass - a compiled field accessor, a sampled header, a memo, a lookup -
is stale after an edit; this sub-check is what sees it.

Shared by the per-family property modules: each registers `reuse.sub(ID)` and gets the catalogue entries of its family.
"""
import re

import petl as etl  # noqa: F401  (entries build petl views)
from hypothesis import strategies as st

from pv import catalog, catgen, codec, gen
from pv.core import Sub, Fail, exc_fail

ITERABLE_NONVIEWS = ("values", "values_multi", "data", "dicts", "records", "namedtuples")

# natural joins, the record* set operations (and unjoin without a key) read the headers when the view is BUILT - C02 allows
# exactly that - so a later change of the column layout is not theirs to see; row edits are
HEADER_AT_CONSTRUCTION = ("join_natural", "recordcomplement", "recorddiff0", "recorddiff1", "unjoin_nokey_left",
                          "unjoin_nokey_right", "diff0", "diff1", "convertall", "replaceall", "formatall", "interpolateall")
HEADER_AT_CONSTRUCTION += tuple(n + "_natural" for n in ("leftjoin", "rightjoin", "outerjoin", "antijoin", "lookupjoin"))
# replay a cache by design and offer the catalogue no way to switch it off: the hash joins called with their default
# cache=True (the lookup of the build side is kept), groupcountdistinctvalues (inner distinct/aggregate with default caches)
CACHED_BY_DESIGN = ("hashjoin", "hashleftjoin", "hashrightjoin", "hashleftjoin_missing", "groupcountdistinctvalues")

FAMILIES = [
    ("C07", r"^hash(join|leftjoin|rightjoin|antijoin|lookupjoin)"),
    ("C08", r"^(hash|record)?(complement|intersection|diff)"),
    ("C06", r"join"),
    ("C05", r"^sort(_|$)|^mergesort"),
    ("C09", r"aggregate|rowreduce|rowgroupmap|^fold|groupselect|mergeduplicates|^merge$|groupcountdistinctvalues|valuecounts|typecounts|parsecounts"),
    ("C10", r"duplicates|^unique|conflicts|distinct"),
    ("C13", r"^select|rowlenselect|biselect|^search|rowslice|^head$|^tail$|^skip$|skipcomments"),
    ("C14", r"melt|recast|transpose|pivot|flatten|unpack|capture|^split"),
    ("C16", r"^wrap$|^progress$|^log_progress$|^clock$"),
    ("C12", r"."),
]


def eligible(e):
    if e.n < 1 or e.has("eager") or e.has("file") or e.has("oneshot") or e.has("random"):
        return False
    if e.has("nonview") and e.name not in ITERABLE_NONVIEWS:
        return False
    # built by the harness from materialised dicts / columns of the source; CacheView replays by design
    if e.name.startswith(("fromdicts", "fromcolumns", "cache")) or e.name in ("rowlengths", "stringpatterns"):
        return False
    if e.name in CACHED_BY_DESIGN:
        return False
    return True


def family(name):
    for pid, rx in FAMILIES:
        if re.search(rx, name):
            return pid
    return None


def names_of(pid):
    return [n for n, e in catalog.ENTRIES.items() if eligible(e) and family(n) == pid]


EDITS = ["append", "delete", "replace", "append", "delete", "replace", "swapcols", "insertcol", "truncate"]


@st.composite
def _case(draw, tier, names):
    c = draw(catgen.cat_case(names, max_rows=5 if tier == "quick" else 9, min_rows=1, allow_ragged=False))
    e = catalog.get(c["entry"])
    row = catgen.cat_table(max_rows=1, min_rows=1, cells=e.cells).map(lambda t: t[1])
    steps = [draw(st.sampled_from([["full"], ["full"], ["partial", 1], ["partial", 2], ["partial", 3]]))]
    for _ in range(draw(st.integers(1, 3))):
        for _ in range(draw(st.integers(1, 2))):
            steps.append(["edit", draw(st.integers(0, e.n - 1)), draw(st.sampled_from(EDITS)), draw(st.integers(0, 5)), draw(row)])
        steps.append(draw(st.sampled_from([["full"], ["full"], ["full"], ["partial", 2]])))
    steps.append(["full"])
    c["steps"] = steps
    # sort-backed entries: in memory or via chunk files (cache=False must hold for both strategies)
    c["buffersize"] = draw(st.sampled_from([None, None, 1, 2, 3]))
    # "noedit" histories: no source edit at all, the view is built with its DEFAULT arguments (cache=True where there is a
    # cache), the chunk size - if any - comes from petl.config.sort_buffersize, and between the passes the process-wide
    # defaults (petl.config.failonerror, sort_buffersize) are changed: a view is configured when it is built
    c["noedit"] = draw(st.integers(0, 3)) == 0
    if c["noedit"]:
        c["steps"] = [st_ for st_ in steps if st_[0] != "edit"] + [["full"]]
        c["flips"] = [draw(st.sampled_from([None, None, "inline", True, "bs1", "bs-none"])) for _ in c["steps"]]
    return c


def apply_edit(data, how, pos, newrow, layout_ok=True):
    """Edit the table `data` (a list of row lists) the way a user edits a list: rows are added, removed or REPLACED by new
    lists (never mutated in place: a cache may legitimately hold on to row objects).  Returns a label or None."""
    width = len(data[0])
    fitted = (list(newrow) * (width // max(1, len(newrow)) + 1))[:width]   # a new row has the table's current width
    if how == "append":
        data.append(fitted)
        return "row-edit"
    if how == "delete" and len(data) > 1:
        del data[1 + pos % (len(data) - 1)]
        return "row-edit"
    if how == "replace" and len(data) > 1:
        data[1 + pos % (len(data) - 1)] = fitted
        return "row-edit"
    if how == "truncate" and len(data) > 1:
        del data[1:]
        return "truncate"
    if not layout_ok:
        return None
    if how == "swapcols" and width >= 2:
        a, b = pos % width, (pos // 2 + 1) % width
        if a != b and all(len(r) > max(a, b) for r in data):
            for i, r in enumerate(data):
                r2 = list(r)
                r2[a], r2[b] = r2[b], r2[a]
                data[i] = r2
            return "layout-edit"
    if how == "insertcol":
        at = pos % 3
        if all(len(r) >= at for r in data):
            name = "zz%d" % sum(1 for f in data[0] if str(f).startswith("zz"))
            for i, r in enumerate(data):
                data[i] = list(r[:at]) + [name if i == 0 else newrow[i % len(newrow)]] + list(r[at:])
            return "layout-edit"
    return None


def _norm(e, r):
    if e.name == "dicts":
        return tuple(sorted(r.items(), key=repr))
    return tuple(r) if isinstance(r, (list, tuple)) else r


def check(case, ctx):
    if case.get("noedit"):
        return check_noedit(case, ctx)
    return check_edits(case, ctx)


def check_noedit(case, ctx):
    """No edits: one view, built with default arguments under the configuration of the moment; partial and full passes,
    the process-wide defaults changed in between.  Every pass must deliver what a fresh view delivered at the start."""
    import petl.config as cfg
    e = catalog.get(case["entry"])
    rows = [[list(r) for r in t] for t in case["sources"]]
    ctx.label("entry:" + e.name, "noedit")
    try:
        exp = [_norm(e, r) for r in e.build(codec.snapshot(rows))]
    except Exception as ex:
        ctx.label("rejected:" + type(ex).__name__)
        return None
    old = (cfg.sort_buffersize, cfg.failonerror)
    bs = case.get("buffersize")
    try:
        if bs is not None:
            cfg.sort_buffersize = bs          # the chunk size comes from the configuration, not from an argument
            ctx.label("config-buffersize")
        try:
            view = e.build(rows)
        except Exception as ex:
            return exc_fail("reuse/%s/construct" % e.name, ex)
        npass = 0
        for step, flip in zip(case["steps"], case.get("flips") or [None] * len(case["steps"])):
            try:
                it = iter(view)
                if step[0] == "partial":
                    got = []
                    for i, r in enumerate(it):
                        got.append(_norm(e, r))
                        if i + 1 >= step[1]:
                            break
                    del it
                else:
                    got = [_norm(e, r) for r in it]
            except Exception as ex:
                return exc_fail("reuse/%s/noedit" % e.name, ex)
            if got != exp[:len(got)] or (step[0] == "full" and got != exp):
                return Fail("reuse/%s/noedit-pass-differs" % e.name, "pass %d (%s) of one view gave %r; a fresh view of the same sources gives %r "
                            "(passes %r, config changes between them %r, config sort_buffersize at construction %r, sources %r)"
                            % (npass, step[0], got, exp, case["steps"], case.get("flips"), bs, case["sources"]))
            npass += 1
            if flip in ("inline", True):
                cfg.failonerror = flip
            elif flip == "bs1":
                cfg.sort_buffersize = 1
            elif flip == "bs-none":
                cfg.sort_buffersize = None
    finally:
        cfg.sort_buffersize, cfg.failonerror = old
    ctx.nontrivial(npass >= 2 and len(exp) >= 2)
    return None


def check_edits(case, ctx):
    e = catalog.get(case["entry"])
    rows = [[list(r) for r in t] for t in case["sources"]]
    kw = {"cache": False} if (e.has("sorted") or e.has("hashcache")) else {}
    if e.has("sorted") and case.get("buffersize") is not None:
        kw["buffersize"] = case["buffersize"]
        kw["tempdir"] = ctx.tmpdir()
    ctx.label("entry:" + e.name)

    def fresh():
        return [_norm(e, r) for r in e.build(codec.snapshot(rows))]
    try:
        fresh()
    except Exception as ex:
        ctx.label("rejected:" + type(ex).__name__)
        return None
    try:
        view = e.build(rows, **kw) if kw else e.build(rows)
    except Exception as ex:
        return exc_fail("reuse/%s/construct" % e.name, ex)
    edits = 0
    passes_before_edit = 0
    checked_after_edit = 0
    for step in case["steps"]:
        if step[0] == "edit":
            _, si, how, pos, newrow = step
            lab = apply_edit(rows[si], how, pos, newrow, layout_ok=e.name not in HEADER_AT_CONSTRUCTION)
            if lab:
                ctx.label(lab)
                edits += 1
            continue
        try:
            exp = fresh()
        except Exception as ex:
            ctx.label("rejected-after-edit:" + type(ex).__name__)
            return None
        try:
            it = iter(view)
            if step[0] == "partial":
                got = []
                for i, r in enumerate(it):
                    got.append(_norm(e, r))
                    if i + 1 >= step[1]:
                        break
                del it
            else:
                got = [_norm(e, r) for r in it]
        except Exception as ex:
            return exc_fail("reuse/%s" % e.name, ex)
        j = len(got)
        if got != exp[:j] or (step[0] == "full" and got != exp):
            return Fail("reuse/%s/stale" % e.name, "%s pass of a view built earlier gave %r; a view built now on the same sources gives %r "
                        "(history %r, sources at construction %r)" % (step[0], got, exp, case["steps"], case["sources"]))
        if edits:
            checked_after_edit += 1
        else:
            passes_before_edit += 1
    ctx.nontrivial(passes_before_edit >= 1 and checked_after_edit >= 1)
    return None


RULE = (" Sub 'reuse' (pv/reuse.py): for the catalogue entries of this family, ONE view object is iterated (fully, partially or "
        "header only), its source lists are edited (rows appended / deleted / replaced, all rows removed, two columns swapped, "
        "a column inserted - rows are replaced, never mutated in place), and it is iterated again, up to three rounds; every "
        "pass must equal a pass of a view freshly built on copies of the current sources (sort-backed and hash-cached entries "
        "are built with cache=False). One history in four has NO edit: the view is built with its default arguments (caches on), "
        "the chunk size of its sorts - if any - is set through petl.config.sort_buffersize, passes are abandoned part-way, and "
        "petl.config.failonerror / sort_buffersize are changed between the passes: every pass must still equal what a fresh view "
        "gave at the start. Non-trivial = a pass before and a checked pass after an effective edit (no-edit: >= 2 passes).")


def sub(pid, quick=3000, thorough=40000, names=None):
    names = names or names_of(pid)

    def strategy(tier, shard=0, nshards=1):
        return _case(tier, names[shard::nshards] or names)
    strategy.sharded = True
    return Sub("reuse", check, strategy=strategy, quick=quick, thorough=thorough)
