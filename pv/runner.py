"""Runner: tiers, seeds, sharding over processes, collect-then-shrink, known findings, replay,
evidence.  See DESIGN.md section 1.

A property module (pv/props/cNN.py) exposes

    ID, LEVEL ('exploration' | 'fault_enumeration'), RULE (str), ASSUMPTIONS (list of str)
    SUBS   = [Sub(...), ...]
    KNOWN  = {slug: predicate(sub_name, case, fail) -> bool}      (optional)

Every Sub has a name, either a Hypothesis strategy factory `strategy(tier)` or an exhaustive
`enumerate(tier)` iterable of plain-data cases, a `check(case, ctx)` that returns None or a
`Fail(bucket, detail)`, and a case budget per tier.
"""
import argparse
import collections
import glob
import importlib
import json
import multiprocessing as mp
import os
import shutil
import signal
import sys
import tempfile
import time
import traceback

from pv import codec

HERE = os.path.dirname(os.path.dirname(os.path.abspath(__file__)))
REPO = os.environ.get("PV_REPO", "/repo")
NPROC = int(os.environ.get("PV_NPROC", "16"))


from pv.core import Fail, Sub, Ctx, petl_frame, exc_fail  # noqa: E402,F401


def _reset_globals():
    import logging
    import petl.config as cfg
    logging.getLogger("petl").setLevel(logging.ERROR)  # petl logs advice (e.g. cursors with fromdb) through logging
    cfg.sort_buffersize = 100000
    cfg.failonerror = False
    cfg.look_limit = 5
    tempfile.tempdir = None


class CaseHang(BaseException):
    """Raised by the CPU-time watchdog inside a case (BaseException: petl's own `except Exception` must not eat it)."""


HANG_LIMIT = float(os.environ.get("PV_HANG_LIMIT", "30"))


def _on_vtalrm(signum, frame):
    raise CaseHang("no result after %.0f s of CPU time" % HANG_LIMIT)


def run_case(sub, case, tier, scratch):
    """Execute one case.  Returns (fail_or_None, ctx).  Exceptions from inside petl that the
    check did not anticipate are violations ('uncaught'); exceptions raised purely by harness
    code propagate (harness error, exit 2)."""
    ctx = Ctx(tier, scratch)
    _reset_globals()
    # watchdog on the process's own CPU time (machine load does not count): a case normally takes milliseconds, so a case
    # that burns HANG_LIMIT seconds inside petl is a pass that never ends, which every property here excludes
    signal.signal(signal.SIGVTALRM, _on_vtalrm)
    try:
        try:
            signal.setitimer(signal.ITIMER_VIRTUAL, HANG_LIMIT)
            try:
                fail = sub.check(case, ctx)
            finally:
                signal.setitimer(signal.ITIMER_VIRTUAL, 0)
        except CaseHang as e:
            if petl_frame(e) is None:
                raise RuntimeError("harness code made no progress for %.0f s of CPU time" % HANG_LIMIT)
            fail = exc_fail(sub.name + "/no-progress", e)
        except Exception as e:  # noqa
            if petl_frame(e) is None:
                raise
            fail = exc_fail(sub.name + "/uncaught", e)
    finally:
        ctx.cleanup()
        _reset_globals()
    return fail, ctx


class _StopShard(BaseException):
    """A shard gives up after repeated hangs: every one of them is a violation already, and going on could take hours."""


class _Found(Exception):
    def __init__(self, case):
        Exception.__init__(self, "found")
        self.case = case


def _load(prop_id):
    return importlib.import_module("pv.props." + prop_id.lower())


def _sub(mod, name):
    for s in mod.SUBS:
        if s.name == name:
            return s
    raise KeyError(name)


def run_task(args):
    """One shard of one sub-check.  Runs in a worker process."""
    prop_id, sub_name, tier, seed, shard, nshards, n, target, best_path = args
    t0 = time.time()
    mod = _load(prop_id)
    sub = _sub(mod, sub_name)
    scratch = tempfile.mkdtemp(prefix="pv-%s-%s-%d-" % (prop_id, sub_name, shard))
    res = {
        "sub": sub_name, "shard": shard, "evals": 0, "nontrivial": set(), "labels": collections.Counter(),
        "buckets": {}, "samples": [], "error": None, "exhaustive": False, "shrunk": None,
    }
    last_nt = [None]
    best = [None]
    res["excluded"] = collections.Counter()
    known_preds = getattr(mod, "KNOWN", {})
    known_slugs = [k["slug"] for k in load_known(prop_id) if k["slug"] in known_preds]

    def known_slug(case, fail):
        for slug in known_slugs:
            if known_preds[slug](sub_name, case, fail):
                return slug
        return None

    def body(case):
        fail, ctx = run_case(sub, case, tier, scratch)
        if fail is not None and known_slug(case, fail):
            # a listed known finding: excluded by construction, counted, never hides another failure
            if target is None:
                res["excluded"][known_slug(case, fail)] += 1
            fail = None
            excluded_case = True
        else:
            excluded_case = False
        if target is not None:
            if fail is not None and fail.bucket == target:
                txt = codec.dumps(case)
                if best[0] is None or len(txt) <= len(best[0]):
                    best[0] = txt
                    if best_path:
                        with open(best_path + ".tmp", "w") as f:
                            f.write(txt)
                        os.replace(best_path + ".tmp", best_path)
                raise _Found(case)
            return
        res["evals"] += 1
        if excluded_case:
            res["labels"]["excluded-known"] += 1
        for lb in ctx.labels:
            res["labels"][lb] += 1
        if ctx.is_nontrivial:
            res["nontrivial"].add(codec.digest(case))
            last_nt[0] = case
            if sum(1 for s in res["samples"] if s[0] == "nontrivial") < 2:
                res["samples"].append(("nontrivial", codec.short(case)))
        elif not res["samples"]:
            res["samples"].append(("first", codec.short(case)))
        if fail is not None:
            b = res["buckets"].get(fail.bucket)
            txt = codec.dumps(case)
            if b is None:
                res["buckets"][fail.bucket] = {"count": 1, "case": txt, "detail": fail.detail,
                                               "shard": shard}
            else:
                b["count"] += 1
                if len(txt) < len(b["case"]):
                    b["case"] = txt
                    b["detail"] = fail.detail
            if "/no-progress" in fail.bucket:
                res["hangs"] = res.get("hangs", 0) + 1
                if res["hangs"] >= 2:
                    res["labels"]["shard-stopped-after-two-hangs"] += 1
                    raise _StopShard()

    try:
        if sub.enumerate is not None:
            res["exhaustive"] = True
            for i, case in enumerate(sub.enumerate(tier)):
                if i % nshards == shard:
                    body(case)
        else:
            from hypothesis import given, settings, seed as hseed, HealthCheck, Phase
            phases = [Phase.generate] if target is None else [Phase.generate, Phase.shrink]
            strat = (sub.strategy(tier, shard, nshards) if getattr(sub.strategy, "sharded", False)
                     else sub.strategy(tier))

            @hseed(seed * 1000 + shard)
            @settings(max_examples=n, deadline=None, database=None, derandomize=False,
                      report_multiple_bugs=False, phases=phases,
                      suppress_health_check=list(HealthCheck))
            @given(strat)
            def test(case):
                body(case)
            try:
                test()
            except _Found as f:
                res["shrunk"] = codec.dumps(f.case)
    except _Found as f:
        res["shrunk"] = codec.dumps(f.case)
    except _StopShard:
        pass
    except BaseException as e:  # harness error
        res["error"] = "".join(traceback.format_exception(type(e), e, e.__traceback__))[-4000:]
    finally:
        shutil.rmtree(scratch, ignore_errors=True)
    if last_nt[0] is not None:
        res["samples"].append(("last-nontrivial", codec.short(last_nt[0])))
    res["nontrivial"] = b"".join(sorted(res["nontrivial"]))
    res["wall"] = time.time() - t0
    return res


# ---- known findings -----------------------------------------------------------------------

def load_known(prop_id):
    """Lines of known_findings.txt for this property.
    known: property=<id> id=<slug> <what fails> :: <pinned case path>
    fixed: property=<id> <commit> <what failed>"""
    out = []
    path = os.path.join(HERE, "known_findings.txt")
    if not os.path.exists(path):
        return out
    for line in open(path):
        line = line.strip()
        if not line.startswith("known:"):
            continue
        body = line[len("known:"):].strip()
        toks = body.split()
        if toks[0] != "property=" + prop_id:
            continue
        slug = toks[1].split("=", 1)[1]
        rest = body.split(None, 2)[2]
        what, _, pinned = rest.partition("::")
        out.append({"slug": slug, "what": what.strip(), "pinned": pinned.strip()})
    return out


def read_case_file(path):
    d = codec.loads(open(path).read())
    return d["property"], d["sub"], d["case"], d


def write_case_file(path, prop_id, sub, case_txt, bucket, detail, seed, tier):
    os.makedirs(os.path.dirname(path), exist_ok=True)
    with open(path, "w") as f:
        f.write("{\n 'property': %r,\n 'sub': %r,\n 'bucket': %r,\n 'detail': %r,\n 'seed': %r,\n"
                " 'tier': %r,\n 'case': %s\n}\n" % (prop_id, sub, bucket, detail[:500], seed, tier, case_txt))


def replay_file(mod, path, tier="quick"):
    prop_id, sub_name, case, meta = read_case_file(path)
    sub = _sub(mod, sub_name)
    scratch = tempfile.mkdtemp(prefix="pv-replay-")
    try:
        fail, ctx = run_case(sub, case, tier, scratch)
    finally:
        shutil.rmtree(scratch, ignore_errors=True)
    return fail, sub_name, case


def _safe(s):
    return "".join(ch if ch.isalnum() or ch in "-_." else "_" for ch in s)[:120]


def _shrink(prop_id, sub_name, tier, seed, shard, nshards, n, bucket, timeout):
    """Targeted re-run with the finding shard's seed; returns shrunk case text or None."""
    fd, best_path = tempfile.mkstemp(prefix="pv-best-")
    os.close(fd)
    os.unlink(best_path)
    q = mp.get_context("fork").Queue()

    def child():
        r = run_task((prop_id, sub_name, tier, seed, shard, nshards, n, bucket, best_path))
        q.put(r.get("shrunk"))

    p = mp.get_context("fork").Process(target=child)
    p.start()
    p.join(timeout)
    out = None
    if p.is_alive():
        p.terminate()
        p.join()
    else:
        try:
            out = q.get(timeout=5)
        except Exception:
            out = None
    if out is None and os.path.exists(best_path):
        out = open(best_path).read()
    for pth in (best_path, best_path + ".tmp"):
        if os.path.exists(pth):
            os.unlink(pth)
    return out


def main(argv=None):
    ap = argparse.ArgumentParser()
    ap.add_argument("prop")
    ap.add_argument("--tier", default=os.environ.get("VERIF_TIER", "quick"), choices=["quick", "thorough"])
    ap.add_argument("--replay")
    ap.add_argument("--shards", type=int, default=NPROC)
    ap.add_argument("--sub", action="append")
    ap.add_argument("--scale", type=float, default=float(os.environ.get("PV_SCALE", "1")))
    ap.add_argument("--no-evidence", action="store_true")
    ap.add_argument("--no-shrink", action="store_true")
    a = ap.parse_args(argv)
    prop_id = a.prop.upper()
    try:
        seed = int(os.environ.get("VERIF_SEED", "1"))
    except ValueError:
        seed = 1
    t0 = time.time()
    try:
        import petl  # noqa
        mod = _load(prop_id)
    except Exception:
        traceback.print_exc()
        print("HARNESS-ERROR property=%s import failed" % prop_id)
        return 2
    petl_path = os.path.realpath(os.path.dirname(petl.__file__))
    if not petl_path.startswith(os.path.realpath(REPO)):
        print("HARNESS-ERROR petl imported from %s, not from %s" % (petl_path, REPO))
        return 2

    if a.replay:
        fail, sub_name, case = replay_file(mod, a.replay, a.tier)
        if fail is None:
            print("[%s] replay %s: passes" % (prop_id, a.replay))
            return 0
        print("[%s] replay %s: %s :: %s" % (prop_id, a.replay, fail.bucket, fail.detail[:500]))
        print("VIOLATION property=%s replay=%s" % (prop_id, os.path.abspath(a.replay)))
        return 1

    print("[%s] tier=%s seed=%d repo=%s shards=%d" % (prop_id, a.tier, seed, REPO, a.shards))
    sys.stdout.flush()
    known = load_known(prop_id)
    known_preds = getattr(mod, "KNOWN", {})
    violations = []   # (bucket, path)
    harness_errors = []

    # 1. known findings: replay the pinned case of each
    pinned_paths = set()
    for k in known:
        path = os.path.join(HERE, k["pinned"])
        pinned_paths.add(os.path.realpath(path))
        if k["slug"] not in known_preds:
            harness_errors.append("known finding %s has no match predicate in module" % k["slug"])
            continue
        try:
            fail, sub_name, case = replay_file(mod, path, a.tier)
        except Exception:
            harness_errors.append("known pinned case %s: %s" % (path, traceback.format_exc()[-1500:]))
            continue
        if fail is not None and known_preds[k["slug"]](sub_name, case, fail):
            print("KNOWN-FINDING: property=%s %s [%s]" % (prop_id, k["what"], k["slug"]))
        elif fail is not None:
            p = os.path.join(HERE, "replays", "%s-%s.case" % (prop_id, _safe("pinned-" + k["slug"])))
            write_case_file(p, prop_id, sub_name, codec.dumps(case), fail.bucket, fail.detail, seed, a.tier)
            violations.append((fail.bucket, p))
        else:
            print("[%s] note: known finding %s no longer reproduces on its pinned case" % (prop_id, k["slug"]))

    # 2. regression tier: pinned cases must pass
    n_reg = 0
    for path in sorted(glob.glob(os.path.join(HERE, "regress", prop_id, "*.case"))):
        if os.path.realpath(path) in pinned_paths:
            continue
        try:
            fail, sub_name, case = replay_file(mod, path, a.tier)
        except Exception:
            harness_errors.append("regress case %s: %s" % (path, traceback.format_exc()[-1500:]))
            continue
        n_reg += 1
        if fail is not None:
            is_known = any(k["slug"] in known_preds and known_preds[k["slug"]](sub_name, case, fail) for k in known)
            if not is_known:
                print("[%s] regress %s fails: %s :: %s" % (prop_id, os.path.basename(path), fail.bucket, fail.detail[:300]))
                violations.append((fail.bucket, path))
    print("[%s] regress: %d pinned cases replayed" % (prop_id, n_reg))
    sys.stdout.flush()

    # 3. generate
    subs = [s for s in mod.SUBS if (not a.sub or s.name in a.sub) and a.tier in s.tiers]
    tasks = []
    for s in subs:
        total = max(1, int(s.budget[a.tier] * a.scale))
        nsh = s.shards or a.shards
        if s.enumerate is None:
            nsh = max(1, min(nsh, total // 20 or 1))
        per = max(1, total // nsh)
        for i in range(nsh):
            tasks.append((prop_id, s.name, a.tier, seed, i, nsh, per, None, None))
    excluded_known = collections.Counter()
    merged = {}
    for s in subs:
        merged[s.name] = {"evals": 0, "nontrivial": set(), "labels": collections.Counter(), "buckets": {},
                          "samples": [], "wall": 0.0, "exhaustive": s.enumerate is not None,
                          "task": None}
    ctxmp = mp.get_context("fork")
    # interleave so that long subs start early
    with ctxmp.Pool(min(a.shards, len(tasks)) or 1) as pool:
        for r in pool.imap_unordered(run_task, tasks, chunksize=1):
            m = merged[r["sub"]]
            m["evals"] += r["evals"]
            nt = r["nontrivial"]
            for i in range(0, len(nt), 8):
                m["nontrivial"].add(nt[i:i + 8])
            m["labels"].update(r["labels"])
            m["wall"] = max(m["wall"], r["wall"])
            if len(m["samples"]) < 4:
                m["samples"].extend(r["samples"][:2] if m["samples"] else r["samples"][:3])
            excluded_known.update(r.get("excluded", {}))
            if r["error"]:
                harness_errors.append("%s shard %d: %s" % (r["sub"], r["shard"], r["error"]))
            for b, info in r["buckets"].items():
                cur = m["buckets"].get(b)
                if cur is None:
                    m["buckets"][b] = dict(info)
                else:
                    cur["count"] += info["count"]
                    if len(info["case"]) < len(cur["case"]):
                        cur["case"], cur["detail"], cur["shard"] = info["case"], info["detail"], info["shard"]

    # 4. report buckets (known findings were excluded, and counted, at collection time)
    per_task = {t[1]: (t[5], t[6]) for t in tasks}
    for s in subs:
        m = merged[s.name]
        line = "[%s] %-14s %7d cases, %6d distinct non-trivial, %d failure bucket(s), %.1fs" % (
            prop_id, s.name, m["evals"], len(m["nontrivial"]), len(m["buckets"]), m["wall"])
        print(line)
        for b, info in sorted(m["buckets"].items()):
            case_txt = info["case"]
            if s.enumerate is None and not a.no_shrink:
                nsh, per = per_task[s.name]
                sh = _shrink(prop_id, s.name, a.tier, seed, info["shard"], nsh, per, b,
                             60 if a.tier == "quick" else 240)
                if os.environ.get("PV_DEBUG"):
                    print("shrink ->", info["shard"], sh)
                if sh is not None and len(sh) <= 2 * len(case_txt):
                    case_txt = sh
            p = os.path.join(HERE, "replays", "%s-%s.case" % (prop_id, _safe(b)))
            write_case_file(p, prop_id, s.name, case_txt, b, info["detail"], seed, a.tier)
            print("[%s]   bucket %s (x%d): %s" % (prop_id, b, info["count"], info["detail"][:400]))
            print("[%s]   minimal case: %s" % (prop_id, case_txt[:1500]))
            violations.append((b, p))
    for slug, cnt in excluded_known.items():
        print("[%s] excluded %d generated case(s) matching known finding %s" % (prop_id, cnt, slug))

    # 5. evidence
    wall = time.time() - t0
    total_evals = sum(m["evals"] for m in merged.values())
    all_nt = set()
    for name, m in merged.items():
        for d in m["nontrivial"]:
            all_nt.add(name.encode() + d)
    floors = getattr(mod, "NONTRIVIAL_FLOOR", {})
    for s in subs:
        m = merged[s.name]
        fl = floors.get(s.name)
        if fl is not None and m["evals"] and len(m["nontrivial"]) < fl * m["evals"] and not a.sub:
            harness_errors.append("sub %s: non-trivial fraction %d/%d below floor %.2f (generator starved)" % (
                s.name, len(m["nontrivial"]), m["evals"], fl))
    samples = []
    for name, m in merged.items():
        for kind, txt in m["samples"][:3]:
            samples.append({"sub": name, "kind": kind, "case": txt})
    ev = {
        "property_id": prop_id, "tier": a.tier, "seed": seed, "level": mod.LEVEL,
        "coverage": {
            "evaluations": total_evals,
            "distinct_nontrivial": len(all_nt),
            "rule": mod.RULE,
            "samples": samples[:12],
            "exhaustive": bool(subs) and all(m["exhaustive"] for m in merged.values()),
            "regress_cases_replayed": n_reg,
            "excluded_known": dict(excluded_known),
            "subs": {name: {"evaluations": m["evals"], "distinct_nontrivial": len(m["nontrivial"]),
                            "exhaustive": m["exhaustive"],
                            "failure_buckets": sorted(m["buckets"]),
                            "labels": dict(sorted(m["labels"].items()))}
                     for name, m in merged.items()},
        },
        "assumptions": list(mod.ASSUMPTIONS),
        "wall_s": round(wall, 2),
        "violations": len(violations),
    }
    if not a.no_evidence and not a.sub:
        os.makedirs(os.path.join(HERE, "evidence"), exist_ok=True)
        with open(os.path.join(HERE, "evidence", prop_id + ".json"), "w") as f:
            json.dump(ev, f, indent=1, sort_keys=True, default=str)
            f.write("\n")
    for b, p in violations:
        print("VIOLATION property=%s replay=%s" % (prop_id, p))
    if harness_errors:
        for h in harness_errors[:5]:
            print("HARNESS-ERROR property=%s %s" % (prop_id, h))
        if not violations:
            return 2
    print("[%s] done in %.1fs: %d evaluations, %d distinct non-trivial, %d violation(s)" % (
        prop_id, wall, total_evals, len(all_nt), len(violations)))
    return 1 if violations else 0


if __name__ == "__main__":
    sys.exit(main())
