"""Cases at scale.  Hypothesis draws small tables; defects that sit behind a size threshold (a 1000-row sample, a 100-field
batch, a 128-file merge, an 8 KiB buffer, "for more than N rows take the fast path") never see them.  A small generated
table is therefore sometimes blown up *after* generation, deterministically, and the reference model is computed on the
blown-up table itself - so the oracle stays what it was.

Modes for the rows:
  cycle          the data rows repeated in order until there are n of them;
  uniform-first  one full-length data row repeated n times, THEN the original rows - everything a sample of the first
                 rows can see is regular, the ragged / odd rows come late;
and optionally `wide`: k extra fields w0..wk-1 appended (distinct names; cells are small ints), so that the header passes
32 / 100 fields.
"""
import hashlib

from hypothesis import strategies as st

SIZES = [65, 130, 257, 1001, 1025, 2049]
WIDTHS = [0, 0, 0, 30, 70, 130]


def derive(case, odds=10, sizes=None, wide=True, tier="quick"):
    """None (usually) or a blow-up spec, read off a hash of the generated case.

    Hypothesis's small choices late in a long composite draw are strongly skewed towards their first alternative (measured:
    'cycle' 4:1 over 'uniform-first', the large sizes rare; a single wide integer is no better - a handful of values make
    up most draws).  The case as a whole varies, so the spec is derived from a digest of it: uniform over the alternatives,
    still a pure function of the generated case, and stored in the case so that a replay file says what was run."""
    h = int.from_bytes(hashlib.blake2b(repr(case).encode("utf-8", "backslashreplace"), digest_size=8).digest(), "big")
    if h % odds != 0:
        # (width alone is cheap: one case in six of the rest gets the extra fields without any extra rows)
        if wide and (h >> 24) % 6 == 0:
            return {"rows": 0, "mode": "cycle", "wide": (33, 70, 130)[(h >> 32) % 3]}
        return None
    h //= odds
    sizes = list(sizes or SIZES)
    if tier == "thorough" and max(sizes) >= 1000:
        sizes = sizes + [4097, 10001]
    return {"rows": sizes[h % len(sizes)], "mode": ("uniform-first", "cycle")[(h >> 8) % 2],
            "wide": WIDTHS[(h >> 16) % len(WIDTHS)] if wide else 0}


def apply(tbl, b):
    """The table `tbl` (list of rows, header first) blown up according to spec b (None: unchanged)."""
    if not b or len(tbl) < 2:
        return tbl
    hdr, rows = list(tbl[0]), [list(r) for r in tbl[1:]]
    n = b["rows"]
    if not n:
        out = rows
    elif b.get("mode") == "uniform-first":
        full = next((r for r in rows if len(r) == len(hdr)), rows[0])
        out = [list(full) for _ in range(n)] + rows
    else:
        out = [list(rows[i % len(rows)]) for i in range(n)]
    k = b.get("wide") or 0
    if k:
        nf = len(hdr)
        hdr = hdr + ["w%d" % i for i in range(k)]
        out = [(r + [(i + j) % 7 for j in range(k)]) if len(r) >= nf else r for i, r in enumerate(out)]
    return [hdr] + out


def label(ctx, b):
    if b and b.get("rows"):
        ctx.label("at-scale", "scale-mode:" + b.get("mode", "cycle"))
    if b and b.get("wide"):
        ctx.label("wide")


def first_difference(got, exp, eq):
    """Index of the first differing item of two sequences (for readable reports on big outputs)."""
    for i, (g, x) in enumerate(zip(got, exp)):
        if not eq(g, x):
            return i
    return min(len(got), len(exp))


RULE = (" At scale (pv/scale.py): a share of the generated cases (1 in 8-40, chosen from a digest of the case) is blown up "
        "after generation - the data rows repeated in order, or one full-length row repeated N times with the original rows "
        "behind it, N from 65 to 2600 (where wired in: 10001 rows in one group, 33-130 extra fields, 17-60 levels of nesting, "
        "cells of 9000-70000 characters, chunk sizes giving 70-300 chunk files or chunks of exactly 1000 rows); the oracle is "
        "unchanged, its reference being computed on the blown-up input. Such cases carry the label 'at-scale' / 'wide'.")
