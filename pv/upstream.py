"""Composition: an operator whose inputs are the OUTPUT of other petl operators.  Every listed property speaks of "tables";
a petl view is a table, so what an operator computes must not depend on whether an input is a list of rows or a view that
delivers exactly those rows.  Here each input of a catalogue entry is wrapped in a *neutral* view - one that passes every
row on unchanged (wrap, a select / selectusingcontext that keeps everything, convert with a where= that is always true,
an open-ended rowslice, a huge head, cache, and for rectangular tables a cut of all fields, a one-table cat, a rename of
nothing, addfield followed by cutout) - and the result must equal the result on the plain lists, on two passes.

The oracle is metamorphic (list inputs vs the same rows through a neutral view), so it is sound wherever the unchanged
tree honours the relation.  What it sees: operators that special-case the class of their input (a "cut of a cut" fused
into one pass, "the input is a sort view, skip the sort", "rows are Records already"), row wrappers (Record) leaking from
one operator into the next, and assumptions about rows being lists.

Shared by the per-family property modules: each registers `upstream.sub(ID)` for the catalogue entries of its family.
"""
import petl as etl
from petl.util.materialise import cache as _cache
from hypothesis import strategies as st

from pv import catalog, catgen, codec, names as _names, reuse
from pv.core import Sub, Fail, exc_fail


def _all(t):
    return list(etl.header(t))


# name -> (wrapper, needs a rectangular table with distinct str field names)
WRAPPERS = {
    "wrap": (lambda t: etl.wrap(t), False),
    "select-all": (lambda t: etl.select(t, lambda r: True), False),
    "selectusingcontext-all": (lambda t: etl.selectusingcontext(t, lambda p, c, n: True), False),
    "convert-where-all": (lambda t: etl.convert(t, {}, where=lambda r: True), False),
    "convert-where-none": (lambda t: etl.convert(t, {}, where=lambda r: False), False),
    "rowslice-all": (lambda t: etl.rowslice(t, None), False),
    "head-all": (lambda t: etl.head(t, 10 ** 6), False),
    "cache": (lambda t: _cache(t), False),
    "tuples": (lambda t: tuple(tuple(r) for r in t), False),
    "cut-all": (lambda t: etl.cut(t, *_all(t)), True),
    "cat-one": (lambda t: etl.cat(t), True),
    "rename-nothing": (lambda t: etl.rename(t, {}), False),
    "addfield-cutout": (lambda t: etl.cutout(etl.addfield(t, "zz__", 1), "zz__"), True),
}


def eligible(e):
    return _names.eligible(e) and not e.name.startswith("cache")


def names_of(pid):
    return [n for n, e in catalog.ENTRIES.items() if eligible(e) and reuse.family(n) == pid]


def _rect(t):
    h = t[0]
    return all(len(r) == len(h) for r in t[1:]) and len(set(map(str, h))) == len(h) and all(isinstance(f, str) for f in h)


@st.composite
def _case(draw, tier, names):
    c = draw(catgen.cat_case(names, max_rows=5 if tier == "quick" else 9))
    c["wrappers"] = [draw(st.sampled_from(sorted(WRAPPERS))) for _ in c["sources"]]
    # how the result is consumed before it is iterated
    c["consumer"] = draw(st.sampled_from(["iterate", "iterate"] + CONSUMERS))
    return c


CONSUMERS = ["len-first", "header-first", "look-first", "contains-first", "getitem-first", "getitem-first", "deepcopy", "copy", "pickle", "abandon-first"]


class _Differs(Exception):
    pass


def _consume(view, how, plain):
    """Read the result the way a program might before iterating it; returns the view to iterate."""
    import copy
    import pickle
    if how == "len-first":
        n = len(view)
        if n != len(plain):
            raise _Differs("len(view) is %r, a pass delivers %d rows (header included)" % (n, len(plain)))
    elif how == "header-first":
        h = tuple(etl.header(view))
        if h != tuple(plain[0]):
            raise _Differs("header(view) is %r, a pass starts with %r" % (h, plain[0]))
    elif how == "look-first":
        repr(etl.look(view, limit=2))
    elif how == "abandon-first":
        it = iter(view)
        for _ in range(2):
            next(it, None)
        it.close() if hasattr(it, "close") else None
    elif how == "contains-first":
        # (a view may deliver its rows as lists or as tuples: `in` compares with ==)
        if len(plain) > 1 and isinstance(plain[1], tuple) and not (plain[1] in view or list(plain[1]) in view):
            raise _Differs("%r in view is False, yet a pass delivers that row" % (plain[1],))
    elif how == "getitem-first":
        f = plain[0][0] if plain and plain[0] else None
        if isinstance(f, str) and list(map(str, plain[0])).count(f) == 1:
            col = list(view[f])
            exp = list(etl.values([list(plain[0])] + [list(r) for r in plain[1:]], f))
            if col != exp:
                raise _Differs("view[%r] gives %r, the column of that name in a pass is %r" % (f, col, exp))
    elif how == "deepcopy":
        return copy.deepcopy(view)
    elif how == "copy":
        return copy.copy(view)
    elif how == "pickle":
        try:
            data = pickle.dumps(view)
        except Exception:
            return view     # (views holding lambdas cannot be pickled at all: nothing to check)
        return pickle.loads(data)
    return view


def _run(e, S, passes=2, consumer="iterate", plain=None):
    res = e.build(S)
    if e.has("nonview"):
        return [e.norm(res)]
    if consumer != "iterate" and plain and isinstance(res, etl.Table):
        res = _consume(res, consumer, plain)
    return [[tuple(r) if isinstance(r, (list, tuple)) else r for r in res] for _ in range(passes)]


def check(case, ctx):
    e = catalog.get(case["entry"])
    ctx.label("entry:" + e.name)
    try:
        plain = _run(e, codec.snapshot(case["sources"]), passes=1)[0]
    except Exception as ex:
        ctx.label("rejected:" + type(ex).__name__)
        return None
    S = codec.snapshot(case["sources"])
    used = []
    W = []
    for t, w in zip(S, case["wrappers"]):
        fn, rect = WRAPPERS[w]
        if rect and not _rect(t):
            w, fn = "wrap", WRAPPERS["wrap"][0]
        used.append(w)
        W.append(fn(t))
    for w in used:
        ctx.label("through:" + w)
    ctx.nontrivial(any(len(t) > 1 for t in case["sources"]))
    how = case.get("consumer", "iterate")
    ctx.label("consumer:" + how)
    try:
        outs = _run(e, W, consumer=how, plain=plain)
    except _Differs as ex:
        return Fail("upstream/%s/%s/differs" % (e.name, how), "%s (inputs through %s, sources %r)" % (ex, used, case["sources"]))
    except Exception as ex:
        return exc_fail("upstream/%s/%s" % (e.name, "+".join(used + [how])), ex)
    for p, got in enumerate(outs):
        try:
            same = got == plain
        except Exception:
            same = False
        if not same:
            return Fail("upstream/%s/%s/differs" % (e.name, "+".join(used)), "pass %d with the inputs handed in through %s (consumer: %s) gave %r; on the plain "
                        "lists the result is %r (sources %r)" % (p, used, how, got, plain, case["sources"]))
    return None


RULE = (" Sub 'upstream' (pv/upstream.py): for the catalogue entries of this family, each input is handed in through a neutral "
        "petl view that passes every row on unchanged (wrap, keep-everything select / selectusingcontext / convert(where=), "
        "open rowslice, head, cache, tuple rows; for rectangular tables also cut of all fields, one-table cat, addfield+cutout): "
        "both passes must equal the result on the plain lists. Before the passes the result may be consumed the way programs do: "
        "len(view), header(view), look(), `row in view`, view['field'], an abandoned pass, a copy / deep copy / pickle of the view - "
        "each must agree with what the passes deliver. Non-trivial = a source has data rows.")


def sub(pid, quick=2500, thorough=30000, names=None):
    nm = names or names_of(pid)

    def strategy(tier, shard=0, nshards=1):
        return _case(tier, nm[shard::nshards] or nm)
    strategy.sharded = True
    return Sub("upstream", check, strategy=strategy, quick=quick, thorough=thorough)
