"""Composition: an operator whose inputs are the OUTPUT of other petl operators.  Every listed property speaks of "tables";
a petl view is a table, so what an operator computes must not depend on whether an input is a list of rows or a view that
delivers exactly those rows.  Here each input of a catalogue entry is wrapped in a *neutral* view - one that passes every
row on unchanged (wrap, a select / selectusingcontext that keeps everything, convert with a where= that is always true,
an open-ended rowslice, a huge head, cache, and for rectangular tables a cut of all fields, a one-table cat, a rename of
nothing, addfield followed by cutout) - and the result must equal the result on the plain lists, on two passes.

The oracle is metamorphic (list inputs vs the same rows through a neutral view), so it is sound wherever the unchanged
tree honours the relation.  What it sees: operators that special-case the class of their input (a "cut of a cut" fused
into one pass, "the input is a sort view, skip the sort", "rows are Records already"), row wrappers (Record) leaking from
one operator into the next, and assumptions about rows being lists.

Shared by the per-family property modules: each registers `upstream.sub(ID)` for the catalogue entries of its family.
"""
import petl as etl
from petl.util.materialise import cache as _cache
from hypothesis import strategies as st

from pv import catalog, catgen, codec, names as _names, reuse
from pv.core import Sub, Fail, exc_fail


def _all(t):
    return list(etl.header(t))


# name -> (wrapper, needs a rectangular table with distinct str field names)
WRAPPERS = {
    "wrap": (lambda t: etl.wrap(t), False),
    "select-all": (lambda t: etl.select(t, lambda r: True), False),
    "selectusingcontext-all": (lambda t: etl.selectusingcontext(t, lambda p, c, n: True), False),
    "convert-where-all": (lambda t: etl.convert(t, {}, where=lambda r: True), False),
    "convert-where-none": (lambda t: etl.convert(t, {}, where=lambda r: False), False),
    "rowslice-all": (lambda t: etl.rowslice(t, None), False),
    "head-all": (lambda t: etl.head(t, 10 ** 6), False),
    "cache": (lambda t: _cache(t), False),
    "tuples": (lambda t: tuple(tuple(r) for r in t), False),
    "cut-all": (lambda t: etl.cut(t, *_all(t)), True),
    "cat-one": (lambda t: etl.cat(t), True),
    "rename-nothing": (lambda t: etl.rename(t, {}), False),
    "addfield-cutout": (lambda t: etl.cutout(etl.addfield(t, "zz__", 1), "zz__"), True),
}


def eligible(e):
    return _names.eligible(e) and not e.name.startswith("cache")


def names_of(pid):
    return [n for n, e in catalog.ENTRIES.items() if eligible(e) and reuse.family(n) == pid]


def _rect(t):
    h = t[0]
    return all(len(r) == len(h) for r in t[1:]) and len(set(map(str, h))) == len(h) and all(isinstance(f, str) for f in h)


@st.composite
def _case(draw, tier, names):
    c = draw(catgen.cat_case(names, max_rows=5 if tier == "quick" else 9))
    c["wrappers"] = [draw(st.sampled_from(sorted(WRAPPERS))) for _ in c["sources"]]
    return c


def _run(e, S, passes=2):
    res = e.build(S)
    if e.has("nonview"):
        return [e.norm(res)]
    return [[tuple(r) if isinstance(r, (list, tuple)) else r for r in res] for _ in range(passes)]


def check(case, ctx):
    e = catalog.get(case["entry"])
    ctx.label("entry:" + e.name)
    try:
        plain = _run(e, codec.snapshot(case["sources"]), passes=1)[0]
    except Exception as ex:
        ctx.label("rejected:" + type(ex).__name__)
        return None
    S = codec.snapshot(case["sources"])
    used = []
    W = []
    for t, w in zip(S, case["wrappers"]):
        fn, rect = WRAPPERS[w]
        if rect and not _rect(t):
            w, fn = "wrap", WRAPPERS["wrap"][0]
        used.append(w)
        W.append(fn(t))
    for w in used:
        ctx.label("through:" + w)
    ctx.nontrivial(any(len(t) > 1 for t in case["sources"]))
    try:
        outs = _run(e, W)
    except Exception as ex:
        return exc_fail("upstream/%s/%s" % (e.name, "+".join(used)), ex)
    for p, got in enumerate(outs):
        try:
            same = got == plain
        except Exception:
            same = False
        if not same:
            return Fail("upstream/%s/%s/differs" % (e.name, "+".join(used)), "pass %d with the inputs handed in through %s gave %r; on the plain "
                        "lists the result is %r (sources %r)" % (p, used, got, plain, case["sources"]))
    return None


RULE = (" Sub 'upstream' (pv/upstream.py): for the catalogue entries of this family, each input is handed in through a neutral "
        "petl view that passes every row on unchanged (wrap, keep-everything select / selectusingcontext / convert(where=), "
        "open rowslice, head, cache, tuple rows; for rectangular tables also cut of all fields, one-table cat, addfield+cutout): "
        "both passes must equal the result on the plain lists. Non-trivial = a source has data rows.")


def sub(pid, quick=2500, thorough=30000, names=None):
    nm = names or names_of(pid)

    def strategy(tier, shard=0, nshards=1):
        return _case(tier, nm[shard::nshards] or nm)
    strategy.sharded = True
    return Sub("upstream", check, strategy=strategy, quick=quick, thorough=thorough)
