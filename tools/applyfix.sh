#!/bin/bash
# usage: tools/applyfix.sh "<hunk numbers>" "<commit message>"   (hunks of notes/fix-drafts/all-fixes.diff)
set -e
cd /verif
python3 tools/splitdiff.py notes/fix-drafts/all-fixes.diff $1 > /tmp/fix.$$.patch
git -C /repo apply --recount /tmp/fix.$$.patch
rm /tmp/fix.$$.patch
(cd /repo && /venv/bin/python -m pytest -q -p no:cacheprovider --timeout=900 2>&1 | tail -1)
git -C /repo commit -qam "$2"
git -C /repo log --oneline -1
