#!/usr/bin/env python3
"""Writes /verif/MANIFEST.json from the table below (kept as code so that it always validates).
A property is claimed only when pv/props/<id>.py exists; anything else is listed under
not_applicable with the reason 'check not built (yet)'."""
import json
import os

HERE = os.path.dirname(os.path.dirname(os.path.abspath(__file__)))

P = {
    "C01": ("generated next()-schedules over 2-3 iterators per operator vs a solo pass of an identically built view; "
            "exhaustive two-iterator interleavings in the thorough tier",
            "hypothesis schedule search + exhaustive interleaving enumeration vs solo-pass oracle", "4/C01"),
    "C02": ("pull-counting sources: zero data pulls at construction for every catalogue operator; for streaming operators and "
            "random pipelines the pulls for k rows are equal for a short and a 100x longer source and bounded by need(k)+c",
            "hypothesis pipelines over instrumented sources; metamorphic (source-length independence) + bound oracle", "4/C02"),
    "C03": ("every catalogue operator over mutable list sources; type-strict snapshot of sources before/after full, partial and "
            "repeated evaluation, and of every yielded row at yield time vs at the end",
            "hypothesis inputs x evaluation modes; snapshot invariants", "4/C03"),
    "C04": ("order laws on Comparable over generated pairs/triples (and all triples of a representative set in the thorough tier), "
            "agreement with an independently written ordering, and agreement of sort/issorted/selectors/joins with it",
            "hypothesis triples + exhaustive representative set vs independent reference ordering", "4/C04"),
    "C05": ("sort/mergesort output compared as a type-strict sequence with Python's stable sort under an independent ordering, "
            "over buffersizes around the row count, both directions, cache on/off, 1-3 passes",
            "hypothesis inputs/configurations vs reference stable sort (model oracle)", "4/C05"),
    "C06": ("merge joins vs a nested-loop reference join on squared-up inputs (header, row multiset, ascending key groups), "
            "incl. None/mixed/compound keys, lkey/rkey, prefixes, missing, empty sides",
            "hypothesis table pairs vs nested-loop reference join", "4/C06"),
    "C07": ("hash joins vs merge joins (differential) and vs the nested-loop reference incl. exact streamed order and cached "
            "passes; lookup functions vs a plain-dict reference incl. strict DuplicateKeyError iff a key repeats",
            "hypothesis differential (hash vs merge) + reference dictionaries", "4/C07"),
    "C08": ("complement/intersection/diff/record*/hash* vs collections.Counter algebra; reassembly law; output order",
            "hypothesis table pairs vs Counter multiset algebra", "4/C08"),
    "C09": ("grouping operators vs a reference grouping (partition observed through recording aggregators), conservation laws",
            "hypothesis tables x aggregation specs vs dictionary reference grouping", "4/C09"),
    "C10": ("duplicates/unique/distinct/conflicts/isunique vs key multiplicities from a Counter; partition laws",
            "hypothesis tables x keys vs Counter-based reference", "4/C10"),
    "C11": ("every sort-backed operator under strategy-argument variants vs its default call (differential, sequence-exact); "
            "edit/iterate histories for the cache clause with pull-counting sources",
            "hypothesis configurations (differential) + generated edit/iterate histories (model-based)", "4/C11"),
    "C12": ("row/field transforms vs cell-by-cell reference implementations written from the docstrings, on ragged tables, "
            "duplicate names, name/index/mixed field specs; a second function applied to the output view of a first vs the two "
            "references composed",
            "hypothesis inputs x argument forms vs reference implementations (also composed pairwise)", "4/C12"),
    "C13": ("selectors vs reference filters under the independent ordering; select/complement partition; slices vs islice",
            "hypothesis tables x reference values vs reference filter + partition law", "4/C13"),
    "C14": ("reshape round trips (melt/recast, transpose, flatten/unflatten, dicts/columns) and reference expansions "
            "(pivot, unpack, unpackdict, capture, split, splitdown)",
            "hypothesis round-trip and reference-model oracles", "4/C14"),
    "C15": ("csv/tsv, pickle, json round trips over encodings, dialect arguments, source kinds, header flags and append "
            "sequences, with a bare stdlib-csv control",
            "hypothesis round-trip with stdlib control", "4/C15"),
    "C16": ("pass-through views yield the wrapped rows on two passes; tee target bytes equal the bytes of the matching to*",
            "hypothesis inputs/arguments; differential tee vs to*", "4/C16"),
    "C17": ("todb/appenddb round trip on sqlite3 and, for every generated case, a fault injected at every source index "
            "(header, each row, exhaustion) for every handle kind and commit flag; a fresh connection must see the prior contents",
            "hypothesis cases x exhaustive crash-point enumeration per case", "4/C17"),
    "C18": ("generated histories of new_iter/advance/exhaust/drop_iter/drop_view/fresh_pass over views that spill to a private "
            "tempdir; rows checked against the reference; directory must be empty whenever nothing is live",
            "model-based history generation with tempdir invariant", "4/C18"),
    "C19": ("convert/convertall/fieldmap/rowmap/rowmapmany with generated failing positions under the three policies, argument vs "
            "config default, vs a reference model; cross-policy agreement on non-failing positions",
            "hypothesis fault sets x policies vs reference model (metamorphic across policies)", "4/C19"),
    "C20": ("every catalogue operator with every non-empty subset of its inputs header-only: no exception and the zero-row "
            "result of the reference (enumerated exhaustively)",
            "exhaustive enumeration of (operator, empty-input subset, header shape) vs reference", "4/C20"),
}

# shared sub-checks registered per operator family (pv/reuse.py, pv/names.py, pv/fluent.py, pv/upstream.py) and pv/scale.py
SHARED = {
    "reuse": ("; second use of one view object (iterate, edit the source lists incl. the column layout, iterate again) vs a freshly "
              "built view", "; differential old-view vs fresh-view histories"),
    "names": ("; field names that are objects (not str) of the same text vs the str-named table", "; metamorphic field-name relation"),
    "fluent": ("; every Table method of the family is the module-level function object (exhaustive)", "; exhaustive method-identity check"),
    "upstream": ("; inputs handed in through neutral petl views and results consumed through len/header/look/in/getitem/copy/pickle "
                 "before iterating vs the result on plain lists", "; metamorphic neutral-view / consumer-protocol relation"),
    "scale": ("; a share of the generated cases blown up after generation (rows repeated or one row repeated N times first, up to "
              "2600 rows / 130 extra fields / deep nesting / long cells), same oracle on the blown-up input",
              "; deterministic at-scale blow-up of generated cases"),
}
HAS = {
    "reuse": ["C04", "C05", "C06", "C07", "C08", "C09", "C10", "C12", "C13", "C14", "C16"],
    "names": ["C05", "C06", "C07", "C08", "C09", "C10", "C12", "C13", "C14", "C16"],
    "fluent": ["C02", "C04", "C05", "C06", "C07", "C08", "C09", "C10", "C12", "C13", "C14", "C15", "C16", "C17"],
    "upstream": ["C05", "C06", "C07", "C08", "C09", "C10", "C12", "C13", "C14", "C16"],
    "scale": ["C01", "C02", "C03", "C04", "C05", "C06", "C07", "C08", "C09", "C10", "C11", "C12", "C13", "C14", "C15", "C16", "C17", "C18",
              "C19", "C20"],
}
for _k, (_t, _q) in SHARED.items():
    for _pid in HAS[_k]:
        _text, _tech, _ref = P[_pid]
        P[_pid] = (_text + _t, _tech + _q, _ref)

NOTE = ("Bounded exploration: verdict holds for the generated cases only (table sizes, pools, schedule lengths and case counts "
        "are reported in the evidence). Trusted base: the reference models in pv/ref and pv/order.py, Hypothesis, CPython 3.12, "
        "stdlib csv/pickle/json/sqlite3. Runs /repo's working tree via PYTHONPATH; no hooks in /repo.")


def main():
    checks, na = [], []
    for pid in sorted(P):
        text, tech, ref = P[pid]
        if os.path.exists(os.path.join(HERE, "pv", "props", pid.lower() + ".py")):
            checks.append({
                "property_id": pid,
                "quick_cmd": "./check %s --tier quick" % pid,
                "thorough_cmd": "./check %s --tier thorough" % pid,
                "evidence_file": "/verif/evidence/%s.json" % pid,
                "replay_cmd_template": "./check %s --replay {path}" % pid,
                "engine": "pv",
                "level_claimed": {"category": "fault_enumeration" if pid == "C17" else "exploration",
                                  "text": text, "design_ref": "DESIGN.md section " + ref},
                "level_note": NOTE,
                "technique": "property-based testing: " + tech,
            })
        else:
            na.append({"property_id": pid, "reason": "check not built yet (construction in progress; see DESIGN.md section 9)"})
    m = {
        "version": 1,
        "setup_cmd": "/venv/bin/python -c 'import hypothesis' 2>/dev/null || /venv/bin/pip install --no-index --find-links /opt/veriftools/wheels hypothesis",
        "hooks": {
            "guard": "PETL_VERIF",
            "enable": "no hooks are needed: checks run /repo's working tree through PYTHONPATH=/repo and observe it from outside",
            "baseline_off_cmd": "cd /repo && /venv/bin/python -m pytest -q -p no:cacheprovider --timeout=900",
            "source_commits": [],
            "add_only": True,
        },
        "engines": [{"name": "pv", "path": "/verif/pv", "serves_properties": [c["property_id"] for c in checks],
                     "kind_free_text": "Hypothesis-driven property checks with reference-model oracles, collect-then-shrink, "
                                       "16-way sharding (./check <id> --tier quick|thorough)"}],
        "checks": checks,
        "notes": "See DESIGN.md. known_findings.txt lists genuine defects (fixed: commits in /repo, known: recorded).",
        "not_applicable": na,
    }
    with open(os.path.join(HERE, "MANIFEST.json"), "w") as f:
        json.dump(m, f, indent=1)
        f.write("\n")
    print("claimed:", [c["property_id"] for c in checks])


if __name__ == "__main__":
    main()
