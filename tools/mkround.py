#!/usr/bin/env python3
"""Prepare a round of independently seeded changes: one scratch worktree of /repo per property under BASE
(outside /repo and /verif) and one prompt file per property.  The sub-agent gets the prompt only.

usage: tools/mkround.py BASE FOCUSFILE [IDS...]
After the round: tools/seedall.sh BASE TAG, then `git -C /repo worktree remove --force BASE/Cnn` for each.
"""
import json
import os
import shutil
import subprocess
import sys

TEMPLATE = """You are helping to evaluate a verification harness for the open-source pure-Python ETL library `petl` by writing realistic seeded defects ("mutants").

Work ONLY inside the git worktree {wt} (a checkout of petl at the commit under test; `petl/version.py` there is an untracked generated file - leave it alone). Do NOT read, list or modify /verif or /repo, and do not use any other copy of petl. Use `/venv/bin/python` (Python 3.12). There is no network.

The property the defects must break (this text is all you are given; read the petl source in the worktree to find the code that makes it hold):

----
{pid} - {title}

Statement: {statement}

Quantified over: {quant}
{extra}----

{focus}

TASK: produce TWO independent source changes to the `petl` package in that worktree (call them m1 and m2; use different mechanisms/sites for the two). Each change must
 1. break the property above (observable through petl's public API),
 2. still import and compile,
 3. pass the existing test suite unedited:  cd {wt} && PYTHONPATH={wt} /venv/bin/python -m pytest -q -p no:cacheprovider --timeout=900 petl   (481 tests pass on the unchanged tree; they must all still pass with your change applied),
 4. be realistic - the kind of slip a maintainer could plausibly make in a refactor, an optimisation or a well-meant bug fix (not sabotage that special-cases a magic value for no reason),
 5. need something specific to manifest - an unusual input shape (e.g. None/mixed-type values, ragged rows, duplicates, empty tables, a particular size relative to a buffer), a particular interleaving of iterators, a multi-step sequence of operations, a fault at a particular point, a non-default argument combination, or two cooperating sites that each look fine alone - NOT a change that ordinary use (or the existing tests) would expose at once.

For each change write these files (create the directories):
  {wt}/mutants/m1/patch.diff   - `git diff` against HEAD of the petl sources only; must apply with `git -C <repo root> apply patch.diff`
  {wt}/mutants/m1/demo.py      - a small standalone program, run as `PYTHONPATH=<repo root> /venv/bin/python demo.py`; it must print OK and exit 0 on the UNCHANGED tree, and exit 1 with a short explanation when the change is applied. It must use only petl's public API and the standard library, be deterministic, and check the property itself (not an implementation detail).
  {wt}/mutants/m1/meta.json    - {{"property": "{pid}", "summary": "...what was changed...", "needs_to_manifest": "...what input/sequence/config is needed...", "files_touched": [...]}}
and the same under mutants/m2/.

Procedure for each: edit the source, run demo.py (must fail), run the full test suite (must pass, 481), save `git diff -- petl > mutants/mN/patch.diff`, then `git checkout -- petl` to restore the tree and confirm demo.py passes on the clean tree. Always run python with PYTHONPATH={wt} and check once that `import petl; petl.__file__` points into {wt}. Leave the worktree clean at the end (only the untracked mutants/ directory added). Write scratch files only inside {wt}/mutants/.

If after a real effort you can only produce one valid change, deliver that one and say so. Finish with a brief report: for each mutant one line on what it changes and what it needs to manifest, and confirmation of the three checks (demo fails with patch, demo passes without, suite passes with patch).
"""


def main():
    base, focusfile = sys.argv[1], sys.argv[2]
    ids = sys.argv[3:]
    focus = open(focusfile).read().strip()
    props = {}
    for line in open("/verif/properties.jsonl"):
        d = json.loads(line)
        props[d["id"]] = d
    os.makedirs(base, exist_ok=True)
    for pid in (ids or sorted(props)):
        d = props[pid]
        wt = os.path.join(base, pid)
        if not os.path.isdir(wt):
            subprocess.check_call(["git", "-C", "/repo", "worktree", "add", "--detach", "-q", wt, "HEAD"])
            shutil.copy("/repo/petl/version.py", os.path.join(wt, "petl", "version.py"))
        extra = ""
        if pid != "C04" and "C04" in d["statement"]:
            extra = "\n(For reference, the ordering the statement calls 'the ordering of C04': %s)\n" % props["C04"]["statement"]
        quant = d["quantifier"]["text"]
        with open(os.path.join(base, pid + ".prompt.txt"), "w") as f:
            f.write(TEMPLATE.format(wt=wt, pid=pid, title=d.get("title", ""), statement=d["statement"], quant=quant,
                                    extra=extra, focus=focus))
    print("prepared", base)


if __name__ == "__main__":
    main()
