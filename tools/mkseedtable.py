#!/usr/bin/env python3
"""Regenerates the table of seeded changes in DESIGN.md (between the SEEDTABLE markers) from seeded/*/meta.json."""
import glob, json, os, re
rows = []
for d in sorted(glob.glob('/verif/seeded/*/meta.json')):
    m = json.load(open(d))
    sid = os.path.basename(os.path.dirname(d))
    checks = m.get('checks', {})
    verdict = ', '.join('%s %s' % (k, v['verdict']) for k, v in checks.items())
    summ = (m.get('summary') or '').replace('\n', ' ').replace('|', '/')
    need = (m.get('needs_to_manifest') or '').replace('\n', ' ').replace('|', '/')
    hist = ' (after strengthening, see meta.json)' if 'history' in m else ''
    rows.append("| %s | %s | %s | %s%s |" % (sid, summ[:140], need[:140], verdict, hist))
table = "| id | change | needs to manifest | result |\n|----|--------|-------------------|--------|\n" + "\n".join(rows) + "\n"
p = '/verif/DESIGN.md'
s = open(p).read()
s = re.sub(r"<!-- SEEDTABLE -->.*<!-- /SEEDTABLE -->", "<!-- SEEDTABLE -->\n" + table.replace('\\', '\\\\') + "<!-- /SEEDTABLE -->", s, flags=re.S)
open(p, 'w').write(s)
print(len(rows), 'rows')
