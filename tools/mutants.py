"""Hand-written mutants used to validate the sensitivity of the checks (tools/muttest.py).
Each must still import and is expected to pass the 481-test baseline (spot-checked)."""

MUTANTS = []


def M(name, file, old, new, props, **kw):
    MUTANTS.append(dict(name=name, file=file, old=old, new=new, props=props, **kw))


def M2(name, edits, props):
    """A mutant made of several edits (file, old, new) that each look harmless alone."""
    MUTANTS.append(dict(name=name, edits=[dict(file=f, old=o, new=n) for f, o, n in edits], props=props))


S = "transform/sorts.py"
# ---- C05 ----------------------------------------------------------------------------------
M("sort-chunk-boundary-le", S, "if self.buffersize is None or len(rows) < self.buffersize:",
  "if self.buffersize is None or len(rows) <= self.buffersize:", ["C05"])
# (a mutant making _Keyed.__lt__ compare (key, obj) is equivalent: heapq.merge compares
#  [value, order] lists, whose == on the keys sends ties to the run order before < is asked)
M("sort-keyed-eq-compares-obj", S, "        return self.key == other.key",
  "        return self.key == other.key and self.obj == other.obj", ["C05"])
M("sort-reverse-unstable", S, "        rows = list(itertools.islice(it, 0, self.buffersize))\n        rows.sort(key=getkey, reverse=reverse)",
  "        rows = list(itertools.islice(it, 0, self.buffersize))\n        rows.sort(key=getkey)\n        if reverse:\n            rows.reverse()", ["C05"])
M("sort-reverse-merge-last-max", S, "        nxt = op(shortlist, **opkwargs)\n        yield nxt\n        nextidx = shortlist.index(nxt)",
  "        nxt = op(reversed(shortlist), **opkwargs) if reverse else op(shortlist, **opkwargs)\n        yield nxt\n        nextidx = shortlist.index(nxt)", ["C05"])
M("sort-merge-runs-reversed", S, "            chunkiters = [_iterchunk(f.name) for f in chunkfiles]\n            for row in _mergesorted(getkey, reverse, *chunkiters):",
  "            chunkiters = [_iterchunk(f.name) for f in reversed(chunkfiles)]\n            for row in _mergesorted(getkey, reverse, *chunkiters):", ["C05"])
M("sort-filecache-ignores-reverse", S, "        rows = _mergesorted(getkey, self.reverse, *chunkiters)",
  "        rows = _mergesorted(getkey, False, *chunkiters)", ["C05"])
M("sort-second-chunk-unsorted-reverse", S, "                rows = list(itertools.islice(it, 0, self.buffersize))\n                rows.sort(key=getkey, reverse=reverse)",
  "                rows = list(itertools.islice(it, 0, self.buffersize))\n                rows.sort(key=getkey)", ["C05"])
M("mergesort-ignores-missing", S, "                yield tuple(_row[flds.index(fo)] if fo in flds else missing",
  "                yield tuple(_row[flds.index(fo)] if fo in flds else None", ["C05"])
M("mergesort-presorted-tail-dropped", S, "        except StopIteration:\n            del shortlist[nextidx]\n            del iterators[nextidx]",
  "        except StopIteration:\n            del shortlist[nextidx]\n            del iterators[nextidx]\n            if len(iterators) == 1 and reverse:\n                return", ["C05"])

B = "transform/basics.py"
# ---- C01 ----------------------------------------------------------------------------------
M("cut-shared-iterator", B, "    def __iter__(self):\n        return itercut(self.source, self.spec, self.missing)",
  "    def __iter__(self):\n        if not hasattr(self, '_it'):\n            self._it = itercut(self.source, self.spec, self.missing)\n        return self._it", ["C01"])
M("fromdicts-gen-shared-position", "io/json.py", "        position = 0\n        it = iter(self.dicts)",
  "        position = self._cached\n        it = iter(self.dicts)", ["C01"])
M("sort-memcache-before-sorted", S, "        rows = list(itertools.islice(it, 0, self.buffersize))\n        rows.sort(key=getkey, reverse=reverse)\n\n        # have we",
  "        rows = list(itertools.islice(it, 0, self.buffersize))\n        if self.cache:\n            self._hdrcache = hdr\n            self._memcache = rows\n        yield_first = None\n        rows.sort(key=getkey, reverse=reverse)\n\n        # have we", ["C01"])
M("hashjoin-lookup-consumed", "transform/hashjoins.py", "        for rrow in _rrows:\n            # start with the left row",
  "        for rrow in [_rrows.pop(0) for _ in list(_rrows)]:\n            # start with the left row", ["C01", "C07"], nth=0)
M("cache-serves-stale-length", "util/materialise.py", "        for row in self.cache:\n            yield row",
  "        for row in list(self.cache)[:max(0, len(self.cache) - 1)]:\n            yield row\n        if self.cache:\n            yield self.cache[-1]\n            yield self.cache[-1]", ["C01", "C16"])
# ---- C02 ----------------------------------------------------------------------------------
M("cut-eager-list", B, "    # construct the transformed data\n    for row in it:\n        try:\n            yield transform(row)",
  "    # construct the transformed data\n    for row in list(it):\n        try:\n            yield transform(row)", ["C02"], nth=0)
M("cutview-constructor-reads", B, "    def __init__(self, source, spec, missing=None):\n        self.source = source\n        self.spec = spec",
  "    def __init__(self, source, spec, missing=None):\n        self.source = source\n        self._n = sum(1 for _ in source)\n        self.spec = spec", ["C02"], nth=0)
M("look-without-islice", "util/vis.py", "        table = list(islice(table, 0, limit+2))", "        table = list(table)[:limit+2]", ["C02"])
M("select-eager", "transform/selects.py", "def iterrowselect(source, where, missing, complement):\n    it = iter(source)",
  "def iterrowselect(source, where, missing, complement):\n    it = iter(list(source))", ["C02"])
M("fromcsv-reads-all", "io/csv_py3.py", "                for row in reader:\n                    yield tuple(row)",
  "                for row in list(reader):\n                    yield tuple(row)", ["C02"])
# ---- C03 ----------------------------------------------------------------------------------
# (addfield squares its input up with stack() first, so a missing copy there is equivalent)
M("filldown-no-copy", "transform/fills.py", "    for row in it:\n        outrow = list(row)\n        for idx in fillindices:",
  "    for row in it:\n        outrow = row if isinstance(row, list) else list(row)\n        for idx in fillindices:", ["C03"])
M("fillright-no-copy", "transform/fills.py", "        outrow = list(row)", "        outrow = row if isinstance(row, list) else list(row)", ["C03"], nth=1)
M("unpackdict-no-copy", "transform/unpacks.py", "        outrow = list(row)", "        outrow = row if isinstance(row, list) else list(row)", ["C03"])
M("addrownumbers-inserts-in-place", B, "        outrow = list(row)", "        outrow = row if isinstance(row, list) else list(row)", ["C03"], nth=3)
M("stack-pads-in-place", B, "            outrow = tuple(row)\n            if trim:\n                outrow = outrow[:n]",
  "            if pad and isinstance(row, list) and len(row) < n:\n                row.extend([missing] * (n - len(row)))\n            outrow = tuple(row)\n            if trim:\n                outrow = outrow[:n]", ["C03"])
M("cut-reused-buffer", B, "    # construct the transformed data\n    for row in it:\n        try:\n            yield transform(row)",
  "    # construct the transformed data\n    buf = []\n    for row in it:\n        try:\n            buf[:] = transform(row)\n            yield buf", ["C03"], nth=0)
M("annex-extends-header", B, "    outhdr = tuple(chain(*hdrs))\n    yield outhdr",
  "    outhdr = hdrs[0]\n    for h in hdrs[1:]:\n        if isinstance(outhdr, list):\n            outhdr.extend(h)\n        else:\n            outhdr = tuple(outhdr) + tuple(h)\n    yield tuple(outhdr)", ["C03"])
# ---- C20 ----------------------------------------------------------------------------------
M("duplicates-bare-next", "transform/dedup.py", "    previous = None\n    previous_yielded = False",
  "    previous = next(it)\n    previous_yielded = False", ["C20"], nth=0)
M("intersection-needs-rows", "transform/setops.py", "    ahdr = next(ita)\n    next(itb)  # ignore b header\n    yield tuple(ahdr)\n    try:\n        a = tuple(next(ita))\n        b = tuple(next(itb))",
  "    ahdr = next(ita)\n    next(itb)  # ignore b header\n    yield tuple(ahdr)\n    a = tuple(next(ita))\n    try:\n        b = tuple(next(itb))", ["C20"])
M("melt-header-only-crash", "transform/reshape.py", "    for row in it:\n        k = getkey(row)",
  "    first = next(it)\n    for row in itertools.chain([first], it):\n        k = getkey(row)", ["C20"])

CMP = "comparison.py"
# ---- C04 ----------------------------------------------------------------------------------
M("cmp-none-checks-swapped", CMP, "        if other is None:\n            return False\n        if obj is None:\n            return True",
  "        if obj is None:\n            return True\n        if other is None:\n            return False", ["C04"])
# (dropping bool from numeric_types is equivalent: bool is a subclass of int)
M("cmp-decimal-not-numeric", "compat.py", "    numeric_types = bool, int, float, Decimal", "    numeric_types = bool, int, float", ["C04"])
M("cmp-typestr-native-names", CMP, "    if isinstance(x, text_type):\n        return 'unicode'", "    if isinstance(x, text_type):\n        return 'str'", ["C04"])
M("cmp-gt-as-not-lt", CMP, "        return not (self < other or self == other)", "        return not (self < other)", ["C04"])
M("cmp-no-recursive-wrap", CMP, "            obj = tuple(Comparable(o) for o in obj)", "            obj = tuple(obj)", ["C04"])
M("cmp-text-before-bytes", CMP, "        if isinstance(obj, text_type) and isinstance(other, binary_type):\n            return False\n        if isinstance(obj, binary_type) and isinstance(other, text_type):\n            return True",
  "        if isinstance(obj, text_type) and isinstance(other, binary_type):\n            return True\n        if isinstance(obj, binary_type) and isinstance(other, text_type):\n            return False", ["C04"])
M("cmp-numbers-after-rest", CMP, "        if isinstance(obj, numeric_types) \\\n                and not isinstance(other, numeric_types):\n            return True\n        if not isinstance(obj, numeric_types) \\\n                and isinstance(other, numeric_types):\n            return False",
  "        if isinstance(obj, numeric_types) \\\n                and not isinstance(other, numeric_types):\n            return False\n        if not isinstance(obj, numeric_types) \\\n                and isinstance(other, numeric_types):\n            return True", ["C04"])
M("issorted-strict-ignored", S, "    elif strict:\n        op = operator.gt", "    elif strict:\n        op = operator.ge", ["C04"])
M("selectle-uses-lt", "transform/selects.py", "lambda v: operator.le(Comparable(v), value)", "lambda v: operator.lt(Comparable(v), value)", ["C04", "C13"])
M("rangeopenright-closed-right", "transform/selects.py", "lambda v: minv < Comparable(v) <= maxv", "lambda v: minv < Comparable(v) < maxv", ["C04", "C13"])
M("itemgetter-missing-not-none", CMP, "    if len(args) == 1:\n        return partial(_get_default, item=args[0], default=None)",
  "    if len(args) == 1:\n        return partial(_get_default, item=args[0], default='')", ["C04", "C05"])

J = "transform/joins.py"
# ---- C06 ----------------------------------------------------------------------------------
M("join-no-left-hanging-flush", J, "        if lpending:\n            # yield anything that got left hanging\n            for row in joinrows(lrowgrp, None):\n                yield tuple(row)\n        # yield the rest\n        for lkval, lrowgrp in lgit:",
  "        # yield the rest\n        for lkval, lrowgrp in lgit:", ["C06"])
M("join-gt-becomes-ge", J, "            elif lkval > rkval:\n                if rightouter:", "            elif lkval >= rkval:\n                if rightouter:", ["C06"])
# (advancing only the left side after a match is equivalent here: the right group iterator has
#  been consumed by joinrows, so re-visiting it yields nothing)
M("join-match-skips-next-right-group", J, "                rkval, rrowgrp = next(rgit)\n                rpending = True\n\n    except StopIteration:",
  "                rkval, rrowgrp = next(rgit)\n                if lkval > rkval:\n                    rkval, rrowgrp = next(rgit)\n                rpending = True\n\n    except StopIteration:", ["C06"])
M("join-rows-zip", J, "            _rrowgrp = list(_rrowgrp)  # may need to iterate more than once\n            for lrow in _lrowgrp:\n                for rrow in _rrowgrp:",
  "            _rrowgrp = list(_rrowgrp)  # may need to iterate more than once\n            for lrow, rrow in zip(_lrowgrp, _rrowgrp):\n                if True:", ["C06"], nth=0)
M("join-right-only-no-key-copy", J, "                for li, ri in zip(lkind, rkind):\n                    outrow[li] = rrow[ri]", "                pass", ["C06"], nth=0)
M("join-rvind-includes-key", J, "    rvind = [i for i in range(len(rhdr)) if i not in rkind]", "    rvind = [i for i in range(len(rhdr)) if i not in rkind[:1]]", ["C06"], nth=0)
M("lookupjoin-last-partner", J, "    rgit = itertools.groupby(rit, key=rgetk)\n    lrowgrp = []\n\n    # loop until", "    rgit = ((k, reversed(list(g))) for k, g in itertools.groupby(rit, key=rgetk))\n    lrowgrp = []\n\n    # loop until", ["C06"], nth=1)
M("antijoin-skips-none-group", J, "            if lkval < rkval:\n                for row in lrowgrp:\n                    yield tuple(row)",
  "            if lkval < rkval:\n                for row in lrowgrp:\n                    if lkval.obj is not None:\n                        yield tuple(row)", ["C06"])
M("join-squareup-dropped", J, "        self.left = stack(left, missing=missing)\n        self.right = stack(right, missing=missing)\n        if not presorted:\n            self.left = sort(self.left, lkey, buffersize=buffersize,\n                             tempdir=tempdir, cache=cache)\n            self.right = sort(self.right, rkey, buffersize=buffersize,\n                              tempdir=tempdir, cache=cache)\n        self.leftouter",
  "        self.left = left\n        self.right = stack(right, missing=missing)\n        if not presorted:\n            self.left = sort(self.left, lkey, buffersize=buffersize,\n                             tempdir=tempdir, cache=cache)\n            self.right = sort(self.right, rkey, buffersize=buffersize,\n                              tempdir=tempdir, cache=cache)\n        self.leftouter", ["C06"])
M("crossjoin-prefix-zero-based", J, "text_type(i+1) + '_' + text_type(f)", "text_type(i) + '_' + text_type(f)", ["C06"])

HJ = "transform/hashjoins.py"
LK = "util/lookups.py"
# ---- C07 ----------------------------------------------------------------------------------
M("lookup-keeps-only-last", LK, "            l = dictionary[k]\n            l.append(v)\n            dictionary[k] = l", "            dictionary[k] = [v]", ["C07"])
M("lookupone-keeps-last", LK, "        elif k not in dictionary:\n            v = getvalue(row)\n            dictionary[k] = v", "        else:\n            v = getvalue(row)\n            dictionary[k] = v", ["C07"])
M("dictlookupone-strict-ignored", LK, "        if strict and k in dictionary:\n            raise DuplicateKeyError(k)\n        elif k not in dictionary:\n            d = asdict(flds, row)",
  "        if k not in dictionary:\n            d = asdict(flds, row)", ["C07"])
M("hashjoin-ignores-cache-false", HJ, "        if not self.cache or self.rlookup is None:\n            self.rlookup = lookup(self.right, self.rkey)", "        if self.rlookup is None:\n            self.rlookup = lookup(self.right, self.rkey)", ["C11"], nth=0)
M("hashleftjoin-probe-wrong-key", HJ, "    lgetk = operator.itemgetter(*lkind)", "    lgetk = operator.itemgetter(*rkind)", ["C07"], nth=1)
M("hashrightjoin-no-key-copy", HJ, "            for li, ri in zip(lkind, rkind):\n                outrow[li] = rrow[ri]", "            pass", ["C07"])
M("hashantijoin-uses-first-key-field", HJ, "    rkeys = set()\n    for rrow in rit:\n        rk = rgetk(rrow)", "    rkeys = set()\n    for rrow in rit:\n        rk = rrow[rkind[0]] if len(rkind) > 1 else rgetk(rrow)", ["C07"])
M("hashlookupjoin-last-partner", HJ, "    rlookup = lookupone(rit, rkey, strict=False)", "    rlookup = dict((k, v[-1]) for k, v in lookup(rit, rkey).items())", ["C07"])
M("hashleftjoin-unmatched-dropped-when-cached", HJ, "        else:\n            outrow = list(lrow)  # start with the left row\n            # extend with missing values in place of the right row\n            outrow.extend([missing] * len(rvind))\n            yield tuple(outrow)",
  "        elif len(rlookup) > 0:\n            outrow = list(lrow)  # start with the left row\n            # extend with missing values in place of the right row\n            outrow.extend([missing] * len(rvind))\n            yield tuple(outrow)", ["C07"], nth=0)

SO = "transform/setops.py"
# ---- C08 ----------------------------------------------------------------------------------
M("complement-b-exhausted-stops", SO, "                if b is None or Comparable(a) < Comparable(b):", "                if b is None:\n                    break\n                if Comparable(a) < Comparable(b):", ["C08"])
M("complement-strict-advances-b", SO, "                    if not strict:\n                        try:\n                            b = next(itb)", "                    if True:\n                        try:\n                            b = next(itb)", ["C08"])
M("complement-native-lt", SO, "                if b is None or Comparable(a) < Comparable(b):", "                if b is None or a < b:", ["C08"])
M("hashintersection-no-decrement", SO, "            yield t\n            bcnt[t] -= 1", "            yield t", ["C08"])
M("intersection-advances-a-only", SO, "                yield a\n                a = tuple(next(ita))\n                b = tuple(next(itb))", "                yield a\n                a = tuple(next(ita))", ["C08"])
M("hashcomplement-strict-inverted", SO, "        if bcnt[t] > 0:\n            if not strict:\n                bcnt[t] -= 1", "        if bcnt[t] > 0:\n            if strict:\n                bcnt[t] -= 1", ["C08"])
M("recordcomplement-no-align", SO, "    bv = cut(b, *ha)\n    return complement(a, bv,", "    bv = b\n    return complement(a, bv,", ["C08"])
M("diff-swapped", SO, "    return added, subtracted\n\n\nTable.diff = diff", "    return subtracted, added\n\n\nTable.diff = diff", ["C08"])

DD = "transform/dedup.py"
# ---- C10 ----------------------------------------------------------------------------------
M("duplicates-yielded-flag-not-reset", DD, "            else:\n                # reset\n                previous_yielded = False\n            previous = row\n    \n    \ndef unique(", "            previous = row\n    \n    \ndef unique(", ["C10"])
M("unique-no-last-row-flush", DD, "    # last one?\n    if prev_comp_ne:\n        yield prev", "    # last one?\n    if False:\n        yield prev", ["C10"])
M("distinct-count-not-reset", DD, "                        yield tuple(previous) + (n_dup,)\n                        n_dup = 1\n                        previous = row", "                        yield tuple(previous) + (n_dup,)\n                        previous = row", ["C10"])
M("distinct-compares-whole-row", DD, "            for row in it:\n                keys = getkey(row)\n                if keys != previous_keys:", "            for row in it:\n                keys = tuple(row)\n                if keys != previous_keys:", ["C10"])
M("conflicts-missing-counts-as-conflict", DD, "                        if missing not in (x, y) and x != y:", "                        if x != y:", ["C10"])
M("conflicts-exclude-ignored", DD, "                    if (exclude and f not in exclude) \\\n", "                    if exclude \\\n", ["C10"])
M("isunique-first-field-only", DD, "    for v in itervalues(table, field):", "    for v in itervalues(table, field[0] if isinstance(field, (list, tuple)) and len(field) > 1 else field):", ["C10"])
M("unique-keeps-first-of-dups", DD, "        if prev_comp_ne and curr_comp_ne:\n            yield tuple(prev)", "        if prev_comp_ne:\n            yield tuple(prev)", ["C10"])

RD = "transform/reductions.py"
UB = "util/base.py"
# ---- C09 ----------------------------------------------------------------------------------
# (grouping on the raw key instead of the Comparable key is equivalent on hashable keys: 1 == 1.0 natively too)
M("aggregate-len-plus-one", RD, "        aggregation = lambda g: sum(1 for _ in g)  # count length of iterable", "        aggregation = lambda g: sum(1 for _ in g) + (1 if isinstance(key, (list, tuple)) and len(key) > 1 else 0)", ["C09"])
M("multiaggregate-rows-consumed", RD, "        rows = list(rows)  # may need to iterate over these more than once", "        rows = iter(list(rows))", ["C09"])
M("groupselectlast-returns-first", RD, "        row = None\n        for row in rows:\n            pass\n        return row", "        row = None\n        for row in rows:\n            break\n        return row", ["C09"])
M("groupselectmin-reversed", RD, "    return groupselectfirst(sort(table, value, reverse=False,", "    return groupselectfirst(sort(table, value, reverse=True,", ["C09"])
M("mergeduplicates-missing-kept", RD, "                          if len(row) > i and row[i] != missing)", "                          if len(row) > i)", ["C09"])
M("fold-ignores-value", RD, "    for k, grp in rowgroupby(table, key, value):\n        yield k, reduce(f, grp)", "    for k, grp in rowgroupby(table, key, value):\n        grp = list(grp)\n        yield k, reduce(f, grp[:-1] if len(grp) > 2 else grp)", ["C09"])
M("valuecounter-skips-none", "util/counting.py", "    for v in values(table, field, missing=missing):\n        try:\n            counter[v] += 1",
  "    for v in values(table, field, missing=missing):\n        try:\n            if v is None:\n                continue\n            counter[v] += 1", ["C09"])
M("rowgroupmap-groups-on-presorted-only", "transform/maps.py", "def iterrowgroupmap(source, key, mapper, header):\n    yield tuple(header)\n    for key, rows in rowgroupby(source, key):", "def iterrowgroupmap(source, key, mapper, header):\n    yield tuple(header)\n    for key, rows in list(rowgroupby(source, key))[::-1][::-1]:", ["C09"])
M("gcdv-counts-rows", RD, "    s2 = distinct(s1)\n    s3 = aggregate(s2, key, len)", "    s2 = s1\n    s3 = aggregate(s2, key, len)", ["C09"])
M("simpleaggregate-unsorted", RD, "        if presorted or key is None:\n            self.table = table\n        else:\n            self.table = sort(table, key, buffersize=buffersize, \n                              tempdir=tempdir, cache=cache)    \n        self.key = key\n        self.aggregation = aggregation", "        self.table = table\n        self.key = key\n        self.aggregation = aggregation", ["C09"])

# ---- C11 ----------------------------------------------------------------------------------
M("join-forgets-buffersize-right", J, "            self.right = sort(self.right, rkey, buffersize=buffersize,\n                              tempdir=tempdir, cache=cache)\n        self.leftouter", "            self.right = sort(self.right, rkey)\n        self.leftouter", ["C11"])
# (serving the memory cache regardless of self.cache, or filling it regardless of self.cache, are each
#  equivalent alone; together they make cache=False replay a stale pass)
M2("sortview-cache-flag-ignored-both-sites", [
    (S, "        if self.cache and self._memcache is not None:", "        if self._memcache is not None:"),
    (S, "            if self.cache:\n                debug('caching mem')", "            if True:\n                debug('caching mem')"),
    (S, "        debug('iterate without cache')\n        self.clearcache()", "        debug('iterate without cache')"),
], ["C11"])
# (equivalent by results: sorting an already sorted input again changes nothing; listed for the record)
M("distinct-presorted-ignored-EQUIV", DD, "        if presorted:\n            self.table = table\n        else:\n            self.table = sort(table, key=key, buffersize=buffersize,", "        if False:\n            self.table = table\n        else:\n            self.table = sort(table, key=key, buffersize=buffersize,", ["C11"])
M("aggregate-drops-tempdir-cache", RD, "            self.table = sort(table, key, buffersize=buffersize, \n                              tempdir=tempdir, cache=cache)    ", "            self.table = sort(table, key, buffersize=buffersize)", ["C11"])
M("complement-cache-not-forwarded", SO, "            self.a = sort(a, buffersize=buffersize, tempdir=tempdir,\n                          cache=cache)\n            self.b = sort(b, buffersize=buffersize, tempdir=tempdir,\n                          cache=cache)\n        self.strict = strict", "            self.a = sort(a, buffersize=buffersize, tempdir=tempdir,\n                          cache=cache)\n            self.b = sort(b, buffersize=buffersize, tempdir=tempdir)\n        self.strict = strict", ["C11"])
M("chunk-merge-drops-tie-order", S, "        keyed_iterables = [(_Keyed(key(obj), obj) for obj in iterable)\n                           for iterable in iterables]", "        keyed_iterables = [(_Keyed(key(obj), obj) for obj in iterable)\n                           for iterable in reversed(iterables)]", ["C11", "C05"])
M("pivot-presorted-sorts-anyway-by-f1", "transform/reshape.py", "            self.source = sort(source, key=(f1, f2), buffersize=buffersize,", "            self.source = sort(source, key=f1, buffersize=buffersize,", ["C14"])
# (equivalent by results, which is the property: ignoring a strategy argument cannot change the output)
M("config-buffersize-read-late-EQUIV", S, "        if buffersize is None:\n            self.buffersize = config.sort_buffersize\n        else:\n            self.buffersize = buffersize", "        self._bs = buffersize\n        self.buffersize = 100000 if buffersize is None else buffersize", ["C11"])

# ---- C18 ----------------------------------------------------------------------------------
M("chunkfile-wrapper-no-del", S, "    def __del__(self):\n        self.delete()", "    def __del__(self):\n        pass", ["C18"])
# (chunk files created with delete=True vanish at once and fail the existing buffered-sort tests: not a valid mutant)
M("filecache-iterator-no-own-reference", S, "    def _iterfromfilecache(self, hdrcache, filecache, getkey):\n        # hold a reference to the filecache here, so cleanup happens in the\n        # correct order\n        filenames = list(map(operator.attrgetter('name'), filecache))",
  "    def _iterfromfilecache(self, hdrcache, filecache, getkey):\n        filenames = list(map(operator.attrgetter('name'), filecache))\n        filecache = None", ["C18"])
M("fromdicts-gen-del-no-unlink", "io/json.py", "            self._filecache.close()\n            unlink(self._filecache.name)", "            self._filecache.close()", ["C18"])
M("sort-failure-leaks-chunks", S, "            chunkfiles = []\n\n            while rows:", "            chunkfiles = self.__dict__.setdefault('_leak', [])\n\n            while rows:", ["C18"])
# (keeping the chunk-file wrappers on the view although cache=False is equivalent for C18: the files die with the view)

CV = "transform/conversions.py"
MP = "transform/maps.py"
# ---- C19 ----------------------------------------------------------------------------------
M("convert-inline-after-true", CV, "                if failonerror == 'inline':\n                    return e\n                elif failonerror:\n                    raise e", "                if failonerror:\n                    raise e\n                elif failonerror == 'inline':\n                    return e", ["C19"])
M("convert-config-read-at-iteration", CV, "        return iterfieldconvert(self.source, self.converters, self.failonerror,", "        return iterfieldconvert(self.source, self.converters, config.failonerror,", ["C19"])
M("rowmap-inline-drops-row", MP, "            if failonerror == 'inline':\n                yield tuple([e])\n            elif failonerror:\n                raise e\n\n\ndef rowmapmany", "            if failonerror == 'inline':\n                pass\n            elif failonerror:\n                raise e\n\n\ndef rowmapmany", ["C19"])
M("rowmapmany-buffers-rows", MP, "            for outrow in rowgenerator(row):\n                yield tuple(outrow)", "            for outrow in list(rowgenerator(row)):\n                yield tuple(outrow)", ["C19"])
M("fieldmap-errorvalue-none", MP, "                else:\n                    val = errorvalue\n            outrow.append(val)", "                else:\n                    val = None\n            outrow.append(val)", ["C19"])
M("fieldmap-argument-ignored-when-config-set", MP, "        self.failonerror = (config.failonerror if failonerror is None\n                                else failonerror)\n        self.errorvalue = errorvalue", "        self.failonerror = (config.failonerror if not failonerror\n                                else failonerror)\n        self.errorvalue = errorvalue", ["C19"])
M("format-drops-kwargs", CV, "    conv = lambda v: fmt.format(v)\n    return convert(table, field, conv, **kwargs)", "    conv = lambda v: fmt.format(v)\n    kwargs.pop('failonerror', None)\n    return convert(table, field, conv, **kwargs)", ["C19"])
M("interpolateall-drops-errorvalue", CV, "    conv = lambda v: fmt % v\n    return convertall(table, conv, **kwargs)", "    conv = lambda v: fmt % v\n    kwargs.pop('errorvalue', None)\n    return convertall(table, conv, **kwargs)", ["C19"])

HD = "transform/headers.py"
FL = "transform/fills.py"
SL = "transform/selects.py"
RS = "transform/reshape.py"
# ---- C12 ----------------------------------------------------------------------------------
# (equivalent: field names are compared as text, so an int spec can never match a name)
M("asindices-name-before-index-EQUIV", UB, "        if isinstance(s, int) and s < len(hdr):\n            indices.append(s)  # index fields from 0\n        # spec could be a field\n        elif s in flds:",
  "        if s in flds:\n            idx = flds.index(s)\n            indices.append(idx)\n            flds[idx] = None\n        elif isinstance(s, int) and s < len(hdr):\n            indices.append(s)  # index fields from 0\n        # spec could be a field\n        elif s in flds:", ["C12"])
M("cut-drops-short-rows", B, "        except IndexError:\n            # row is short, let's be kind and fill in any missing fields\n            yield tuple(row[i] if i < len(row) else missing for i in indices)\n\n\ndef cutout", "        except IndexError:\n            pass\n\n\ndef cutout", ["C12"])
M("cat-matches-by-position", B, "                try:\n                    val = row[hdr.index(h)]\n                except IndexError:", "                try:\n                    val = row[outhdr.index(h)] if outhdr.index(h) < len(hdr) else row[len(row)]\n                except IndexError:", ["C12"])
M("addfield-inserts-before-padding", B, "        self.source = stack(source, missing=missing)\n        self.field = field\n        self.value = value", "        self.source = source\n        self.field = field\n        self.value = value", ["C12"])
M("convert-applies-to-next-index", CV, "            return tuple(transform_value(i, v)\n                         for i, v in enumerate(_row))", "            return tuple(transform_value(i, v)\n                         for i, v in enumerate(_row, 1 if len(_row) > len(hdr) else 0))", ["C12"])
M("filldown-fills-from-previous-output", FL, "            if row[idx] == missing:\n                outrow[idx] = fill[idx]  # fill down\n            else:\n                fill[idx] = row[idx]  # new fill value", "            if row[idx] == missing:\n                outrow[idx] = fill[idx]  # fill down\n            fill[idx] = row[idx]", ["C12"])
M("annex-no-trim-long-rows", B, "                elif lr > lh:  # handle long rows\n                    row = row[:lh]", "                elif lr > lh + 1:  # handle long rows\n                    row = row[:lh]", ["C12"])
M("rename-index-after-name", HD, "    outhdr = [spec[i] if i in spec\n              else spec[f] if f in spec\n              else f", "    outhdr = [spec[f] if f in spec\n              else spec[i] if i in spec\n              else f", ["C12"])
M("fillleft-cascade-broken", FL, "        outrow = list(reversed(row))\n        for i, _ in enumerate(outrow):\n            if i > 0 and outrow[i] == missing and outrow[i-1] != missing:\n                outrow[i] = outrow[i-1]", "        outrow = list(reversed(row))\n        src = list(outrow)\n        for i, _ in enumerate(outrow):\n            if i > 0 and src[i] == missing and src[i-1] != missing:\n                outrow[i] = src[i-1]", ["C12"])
M("dicts-long-row-extra-key", UB, "        items = [(flds[i], row[i]) for i in range(len(flds))]", "        items = [(flds[i], row[i]) for i in range(len(flds))] + ([(None, row[-1])] if len(row) > len(flds) else [])", ["C12"])
# ---- C13 ----------------------------------------------------------------------------------
M("select-xor-inverted-for-missing", SL, "        try:\n            v = getv(row)\n        except IndexError:\n            v = missing\n        if bool(where(v)) != complement:  # XOR", "        try:\n            v = getv(row)\n        except IndexError:\n            continue\n        if bool(where(v)) != complement:  # XOR", ["C13"])
M("tail-off-by-one", B, "        if len(cache) > n:\n            cache.popleft()", "        if len(cache) >= n and n > 1:\n            cache.popleft()", ["C13"])
M("selectrangeopen-strict-upper", SL, "lambda v: minv <= Comparable(v) <= maxv", "lambda v: minv <= Comparable(v) < maxv", ["C13"])
M("searchcomplement-any-vs-all", "transform/regex.py", "            test = lambda r: any(prog.search(text_type(v)) for v in getvals(r))", "            test = lambda r: all(prog.search(text_type(v)) for v in getvals(r))", ["C13"])
M("search-row-skips-first-cell", "transform/regex.py", "        test = lambda r: any(prog.search(text_type(v)) for v in r)", "        test = lambda r: any(prog.search(text_type(v)) for v in r[1:]) if len(r) > 2 else any(prog.search(text_type(v)) for v in r)", ["C13"])
M("selectnotin-uses-identity", SL, "lambda v: v not in value", "lambda v: not any(v is x for x in value)", ["C13"])
M("facet-uses-selectop-is", SL, "        fct[v] = selecteq(table, key, v)", "        fct[v] = selectis(table, key, v)", ["C13"])
M("rowslice-step-ignored", B, "    for row in islice(it, *sliceargs):\n        yield tuple(row)", "    for row in islice(it, *sliceargs[:2]):\n        yield tuple(row)", ["C13"])
# ---- C14 ----------------------------------------------------------------------------------
M("recast-variables-discovery-order", RS, "            variables[f] = sorted(variables[f])", "            variables[f] = list(variables[f])", ["C14"])
M("unflatten-drops-partial-last-row", RS, "        if len(row) > 0:\n            if len(row) < period:\n                row.extend([missing] * (period - len(row)))\n            yield tuple(row)", "        if len(row) == period:\n            yield tuple(row)", ["C14"])
M("transpose-shared-iterator", RS, "    its = [iter(source) for _ in hdr]", "    its = [iter(source)] * len(hdr)", ["C14"])
M("melt-skips-none-values", RS, "                o.append(row[i])  # add value\n                yield tuple(o)", "                o.append(row[i])  # add value\n                if row[i] is not None or len(variables) == 1:\n                    yield tuple(o)", ["C14"])
# (equivalent: with exactly nunpack values, value[:nunpack] and list(value) hold the same cells)
M("unpack-truncates-to-newfields-minus-one-EQUIV", "transform/unpacks.py", "            if nvals >= nunpack:\n                newvals = value[:nunpack]", "            if nvals > nunpack:\n                newvals = value[:nunpack]", ["C14"])
M("splitdown-maxsplit-ignored", "transform/regex.py", "        for v in prog.split(value, maxsplit):\n            yield tuple(v if i == field_index", "        for v in prog.split(value):\n            yield tuple(v if i == field_index", ["C14"])
# (out of scope: only ragged columns differ, and no listed property speaks about fromcolumns on ragged columns)
M("fromcolumns-zip-shortest-OUTOFSCOPE", "io/base.py", "    for row in izip_longest(*cols, **dict(fillvalue=missing)):\n        yield row", "    for row in zip(*cols):\n        yield row", ["C14", "C01"])
# ---- C15 / C16 / C17 --------------------------------------------------------------------------------
# (equivalent on Linux: without newline='' the writer translates \n to os.linesep, which is \n here)
M("csv-write-no-newline-arg-EQUIV-ON-LINUX", "io/csv_py3.py", "        csvfile = io.TextIOWrapper(buf, encoding=encoding, errors=errors,\n                                   newline='')", "        csvfile = io.TextIOWrapper(buf, encoding=encoding, errors=errors)", ["C15"])
M("appendcsv-truncates", "io/csv.py", "    source = write_source_from_arg(source, mode='ab')\n    csvargs.setdefault('dialect', 'excel')\n    appendcsv_impl(", "    source = write_source_from_arg(source, mode='ab')\n    csvargs.setdefault('dialect', 'excel')\n    csvargs.pop('quotechar', None)\n    appendcsv_impl(", ["C15"])
M("appendpickle-default-writes-header", "io/pickle.py", "def appendpickle(table, source=None, protocol=-1, write_header=False):", "def appendpickle(table, source=None, protocol=-1, write_header=True):", ["C15"])
M("appendcsv-default-writes-header", "io/csv.py", "def appendcsv(table, source=None, encoding=None, errors='strict',\n              write_header=False, **csvargs):", "def appendcsv(table, source=None, encoding=None, errors='strict',\n              write_header=True, **csvargs):", ["C15"])
M("frompickle-stops-at-empty-row", "io/pickle.py", "                while True:\n                    yield tuple(pickle.load(f))", "                while True:\n                    r = tuple(pickle.load(f))\n                    if not r:\n                        break\n                    yield r", ["C15"])
M("fromjson-lines-header-from-first-only-missing", "io/json.py", "        yield tuple(json_obj[f] if f in json_obj else missing for f in header)", "        yield tuple(json_obj[f] if f in json_obj and json_obj[f] != '' else missing for f in header)", ["C15"])
# (equivalent: TextIOWrapper.detach() flushes pending text first)
M("teecsv-no-final-flush-EQUIV", "io/csv_py3.py", "                for row in it:\n                    writer.writerow(row)\n                    yield tuple(row)\n                csvfile.flush()", "                for row in it:\n                    writer.writerow(row)\n                    yield tuple(row)", ["C16"])
M("teepickle-yields-before-write-loses-last", "io/pickle.py", "            for row in it:\n                pickle.dump(row, f, protocol)\n                yield tuple(row)", "            prev = None\n            for row in it:\n                if prev is not None:\n                    pickle.dump(prev, f, protocol)\n                prev = row\n                yield tuple(row)", ["C16"])
M("progress-skips-row-on-report", "util/timing.py", "                batchratemean, batchratevar = \\\n                    onlinestats(batchrate, batchn, mean=batchratemean,\n                                 variance=batchratevar)\n            yield r", "                batchratemean, batchratevar = \\\n                    onlinestats(batchrate, batchn, mean=batchratemean,\n                                 variance=batchratevar)\n                if n % (2 * self.batchsize) == 0:\n                    continue\n            yield r", ["C16"])
M("cache-serves-n-rows-only", "util/materialise.py", "            if not self.n or len(self.cache) < self.n:\n                self.cachecomplete = True", "            if not self.n or len(self.cache) <= self.n:\n                self.cachecomplete = True", ["C16"])
# (equivalent for a fully consumed tee, which is what the property speaks about)
M("teehtml-row-written-after-yield-EQUIV", "io/html.py", "                    _write_row(f, hdr, row, lineterminator, vrepr,\n                               tr_style, td_styles, truncate)\n                    yield row", "                    yield row\n                    _write_row(f, hdr, row, lineterminator, vrepr,\n                               tr_style, td_styles, truncate)", ["C16"])
M("todb-commit-after-delete", "io/db.py", "        cursor.execute(truncatequery)\n        # just in case, close and resurrect cursor\n        cursor.close()\n        cursor = connection.cursor()", "        cursor.execute(truncatequery)\n        # just in case, close and resurrect cursor\n        cursor.close()\n        if commit:\n            connection.commit()\n        cursor = connection.cursor()", ["C17"], nth=0)
M("todb-commit-in-finally", "io/db.py", "    cursor.executemany(insertquery, it)\n\n    # finish up\n    debug('close the cursor')\n    cursor.close()\n\n    if commit:\n        debug('commit transaction')\n        connection.commit()", "    try:\n        cursor.executemany(insertquery, it)\n    finally:\n        cursor.close()\n        if commit:\n            connection.commit()", ["C17"], nth=0)
M("todb-executemany-list-EQUIV-must-stay-green", "io/db.py", "    cursor.executemany(insertquery, it)\n\n    # finish up", "    cursor.executemany(insertquery, list(it))\n\n    # finish up", ["C17"], nth=0)
M("appenddb-filename-no-close", "io/db.py", "        _todb(table, dbo, tablename, schema=schema, commit=commit,\n              truncate=False)\n\n    finally:\n        if needs_closing:\n            dbo.close()", "        _todb(table, dbo, tablename, schema=schema, commit=commit,\n              truncate=False)\n\n    finally:\n        if needs_closing:\n            dbo.commit()\n            dbo.close()", ["C17"])

# ---- later additions -------------------------------------------------------------------------------------------------
M("lookup-appends-in-place-breaks-shelve", LK, "            l = dictionary[k]\n            l.append(v)\n            dictionary[k] = l\n        else:\n            dictionary[k] = [v]\n\n    return dictionary\n\n\nTable.lookup = lookup",
  "            dictionary[k].append(v)\n        else:\n            dictionary[k] = [v]\n\n    return dictionary\n\n\nTable.lookup = lookup", ["C07"])
M("recast-reducer-by-field-not-variable", RS, "                    if variable in reducers:\n                        redu = reducers[variable]", "                    if f in reducers:\n                        redu = reducers[f]", ["C14"])
M("recast-single-value-reduced", RS, "                elif len(vals) == 1:\n                    val = vals[0]\n                else:\n                    if variable in reducers:", "                else:\n                    if variable in reducers:", ["C14"])
M("recast-key-none-includes-ignored", RS, "        keyfields = [f for f in flds\n                     if f not in variablefields and f != valuefield]", "        keyfields = [f for f in flds\n                     if f not in variablefields and f != valuefield][:1]", ["C14"])
