"""Hand-written mutants used to validate the sensitivity of the checks (tools/muttest.py).
Each must still import and is expected to pass the 481-test baseline (spot-checked)."""

MUTANTS = []


def M(name, file, old, new, props, **kw):
    MUTANTS.append(dict(name=name, file=file, old=old, new=new, props=props, **kw))


S = "transform/sorts.py"
# ---- C05 ----------------------------------------------------------------------------------
M("sort-chunk-boundary-le", S, "if self.buffersize is None or len(rows) < self.buffersize:",
  "if self.buffersize is None or len(rows) <= self.buffersize:", ["C05"])
# (a mutant making _Keyed.__lt__ compare (key, obj) is equivalent: heapq.merge compares
#  [value, order] lists, whose == on the keys sends ties to the run order before < is asked)
M("sort-keyed-eq-compares-obj", S, "        return self.key == other.key",
  "        return self.key == other.key and self.obj == other.obj", ["C05"])
M("sort-reverse-unstable", S, "        rows = list(itertools.islice(it, 0, self.buffersize))\n        rows.sort(key=getkey, reverse=reverse)",
  "        rows = list(itertools.islice(it, 0, self.buffersize))\n        rows.sort(key=getkey)\n        if reverse:\n            rows.reverse()", ["C05"])
M("sort-reverse-merge-last-max", S, "        nxt = op(shortlist, **opkwargs)\n        yield nxt\n        nextidx = shortlist.index(nxt)",
  "        nxt = op(reversed(shortlist), **opkwargs) if reverse else op(shortlist, **opkwargs)\n        yield nxt\n        nextidx = shortlist.index(nxt)", ["C05"])
M("sort-merge-runs-reversed", S, "            chunkiters = [_iterchunk(f.name) for f in chunkfiles]\n            for row in _mergesorted(getkey, reverse, *chunkiters):",
  "            chunkiters = [_iterchunk(f.name) for f in reversed(chunkfiles)]\n            for row in _mergesorted(getkey, reverse, *chunkiters):", ["C05"])
M("sort-filecache-ignores-reverse", S, "        rows = _mergesorted(self._getkey, self.reverse, *chunkiters)",
  "        rows = _mergesorted(self._getkey, False, *chunkiters)", ["C05"])
M("sort-second-chunk-unsorted-reverse", S, "                rows = list(itertools.islice(it, 0, self.buffersize))\n                rows.sort(key=getkey, reverse=reverse)",
  "                rows = list(itertools.islice(it, 0, self.buffersize))\n                rows.sort(key=getkey)", ["C05"])
M("mergesort-ignores-missing", S, "                yield tuple(_row[flds.index(fo)] if fo in flds else missing",
  "                yield tuple(_row[flds.index(fo)] if fo in flds else None", ["C05"])
M("mergesort-presorted-tail-dropped", S, "        except StopIteration:\n            del shortlist[nextidx]\n            del iterators[nextidx]",
  "        except StopIteration:\n            del shortlist[nextidx]\n            del iterators[nextidx]\n            if len(iterators) == 1 and reverse:\n                return", ["C05"])
