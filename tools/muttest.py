#!/venv/bin/python
"""Sensitivity test: apply hand-written mutants to scratch copies of /repo/petl and confirm that
the named checks report a violation.  Scratch copies live under a mkdtemp and are removed.

usage: tools/muttest.py [-k SUBSTR] [-j N] [--tier quick]
Mutants are listed in tools/mutants.py as dicts:
  {name, file, old, new, props: [ids], (count: n-th occurrence, default must be unique)}
"""
import argparse
import os
import shutil
import subprocess
import sys
import tempfile
from concurrent.futures import ThreadPoolExecutor

HERE = os.path.dirname(os.path.dirname(os.path.abspath(__file__)))
sys.path.insert(0, os.path.join(HERE, "tools"))


def run_one(m, tier, keep=False):
    d = tempfile.mkdtemp(prefix="pvmut-")
    try:
        shutil.copytree("/repo/petl", os.path.join(d, "petl"),
                        ignore=shutil.ignore_patterns("__pycache__", "test"))
        edits = m.get("edits") or [dict(file=m["file"], old=m["old"], new=m["new"], **({"nth": m["nth"]} if "nth" in m else {}))]
        for ed in edits:
            p = os.path.join(d, "petl", ed["file"])
            s = open(p).read()
            n = s.count(ed["old"])
            if n == 0 or (n > 1 and "nth" not in ed):
                return m["name"], "BAD-MUTANT", "old text occurs %d times in %s" % (n, ed["file"])
            if "nth" in ed:
                parts = s.split(ed["old"])
                k = ed["nth"]
                if k >= n:
                    return m["name"], "BAD-MUTANT", "nth=%d but old text occurs %d times" % (k, n)
                s = ed["old"].join(parts[:k + 1]) + ed["new"] + ed["old"].join(parts[k + 1:])
            else:
                s = s.replace(ed["old"], ed["new"])
            open(p, "w").write(s)
        out = []
        for prop in m["props"]:
            env = dict(os.environ, PETL_REPO=d, PV_NPROC=str(m.get("nproc", 4)))
            r = subprocess.run([os.path.join(HERE, "check"), prop, "--tier", tier, "--no-evidence", "--no-shrink"],
                               capture_output=True, text=True, env=env)
            lines = [ln for ln in r.stdout.splitlines() if "bucket" in ln or "HARNESS" in ln or "regress" in ln and "fails" in ln]
            out.append((prop, r.returncode, lines[:3]))
        return m["name"], out, ""
    finally:
        shutil.rmtree(d, ignore_errors=True)


def main():
    ap = argparse.ArgumentParser()
    ap.add_argument("-k", default="")
    ap.add_argument("-j", type=int, default=4)
    ap.add_argument("--tier", default="quick")
    a = ap.parse_args()
    import mutants
    ms = [m for m in mutants.MUTANTS if a.k in m["name"] or a.k in " ".join(m["props"])]
    missed = 0
    with ThreadPoolExecutor(a.j) as ex:
        for name, res, err in ex.map(lambda m: run_one(m, a.tier), ms):
            if isinstance(res, str):
                print("%-40s %s %s" % (name, res, err))
                missed += 1
                continue
            for prop, rc, lines in res:
                status = {0: "MISSED", 1: "caught", 2: "HARNESS-ERROR"}.get(rc, "rc=%d" % rc)
                if rc != 1:
                    missed += 1
                print("%-40s %s %-14s %s" % (name, prop, status, " | ".join(l.strip()[:160] for l in lines[:1])))
            sys.stdout.flush()
    print("not caught:", missed, "of", len(ms))


if __name__ == "__main__":
    main()
