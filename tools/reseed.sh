#!/bin/bash
# Re-confirm every stored seeded change against the current checks (scratch copies; /repo untouched) and refresh meta.json.
cd /verif
for d in seeded/*/; do
  id=$(basename $d)
  v=$(tools/seedtest.py seeded/$id --keep --id $id 2>&1 | grep -E '"verdict"|"confirmed"' | tr -d ' ,\n')
  echo "$id $v"
done
