#!/bin/bash
# usage: tools/reseed_part.sh IDFILE   re-confirm the stored seeded changes listed in IDFILE (one id per line) against the
# current checks (scratch copies; /repo untouched; the baseline suite is not re-run: the patches are unchanged)
cd /verif
for id in $(cat "$1"); do
  v=$(tools/seedtest.py seeded/$id --keep --id $id --skip-suite 2>&1 | grep -E '"verdict"|"confirmed"|"failing_cases"' | tr -d ' \n')
  echo "$id $v"
done
