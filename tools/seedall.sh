#!/bin/bash
# usage: tools/seedall.sh [BASE=/tmp/wt] [TAG=]   evaluate every delivered mutant under BASE/<ID>/mutants/mN that is not yet
# stored in /verif/seeded (stored as <ID>-<TAG>mN); only for properties whose check exists.
base=${1:-/tmp/wt}; tag=${2:-}
cd /verif
for d in $base/${ONLY:-C*}/mutants/m*; do
  [ -f "$d/patch.diff" ] && [ -f "$d/demo.py" ] && [ -f "$d/meta.json" ] || continue
  prop=$(echo $d | sed -E 's|.*/(C[0-9]+)/mutants/(m[0-9]+)|\1|'); mn=$(basename $d)
  id=$prop-$tag$mn
  [ -d seeded/$id ] && continue
  [ -f pv/props/$(echo $prop | tr A-Z a-z).py ] || { echo "== $id: check for $prop not built yet"; continue; }
  echo "== $id"
  tools/seedtest.py $d --keep --id $id 2>&1 | grep -v "^WARNING" | python3 -c "
import sys,json
t=sys.stdin.read()
try:
    i=t.index('{'); j=t.rindex('}')
    d=json.loads(t[i:j+1]); print({k:d[k] for k in ('demo_clean','demo_patched','suite_patched','confirmed')}, {p:(v['verdict'],v['first'][:2]) for p,v in d['checks'].items()})
except Exception as e: print(t[-800:])
"
done
