#!/bin/bash
# Evaluate every delivered mutant under /tmp/wt/<ID>/mutants/* that is not yet stored in /verif/seeded (only for built checks).
cd /verif
for d in /tmp/wt/C*/mutants/m*; do
  [ -f "$d/patch.diff" ] && [ -f "$d/demo.py" ] && [ -f "$d/meta.json" ] || continue
  id=$(echo $d | sed -E 's|/tmp/wt/(C[0-9]+)/mutants/(m[0-9]+)|\1-\2|')
  prop=${id%%-*}
  [ -d seeded/$id ] && continue
  [ -f pv/props/$(echo $prop | tr A-Z a-z).py ] || { echo "== $id: check for $prop not built yet"; continue; }
  echo "== $id"
  tools/seedtest.py $d --keep --id $id 2>&1 | grep -v "^WARNING" | python3 -c "
import sys,json
t=sys.stdin.read()
try:
    i=t.index('{'); j=t.rindex('}')
    d=json.loads(t[i:j+1]); print({k:d[k] for k in ('demo_clean','demo_patched','suite_patched','confirmed')}, {p:(v['verdict'],v['first'][:1]) for p,v in d['checks'].items()})
except Exception as e: print(t[-800:])
"
done
