#!/venv/bin/python
"""Confirm and evaluate a seeded change written by an independent sub-agent.

usage: tools/seedtest.py <dir with patch.diff, demo.py, meta.json> [--id NAME] [--props C05,C11] [--keep]

Steps (all in scratch copies of /repo's working tree under a mkdtemp, removed afterwards):
  1. demo.py on the unchanged copy must exit 0;
  2. the patch must apply; demo.py on the patched copy must exit non-zero;
  3. the unedited baseline test suite must pass on the patched copy;
  4. ./check <property> --tier quick with PETL_REPO=<patched copy> is run and its exit code recorded.
With --keep the change is stored as /verif/seeded/<id>/ (patch.diff, demo.py, meta.json).
"""
import argparse
import json
import os
import shutil
import subprocess
import sys
import tempfile

HERE = os.path.dirname(os.path.dirname(os.path.abspath(__file__)))
PY = "/venv/bin/python"


def copy_repo(dst):
    shutil.copytree("/repo", dst, ignore=shutil.ignore_patterns(".git", "__pycache__", "*.pyc", ".pytest_cache", "tmp"))


def run(cmd, cwd=None, env=None, timeout=1800):
    r = subprocess.run(cmd, cwd=cwd, env=env, capture_output=True, text=True, timeout=timeout)
    return r.returncode, (r.stdout + r.stderr)


def main():
    ap = argparse.ArgumentParser()
    ap.add_argument("dir")
    ap.add_argument("--id")
    ap.add_argument("--props")
    ap.add_argument("--keep", action="store_true")
    ap.add_argument("--tier", default="quick")
    ap.add_argument("--skip-suite", action="store_true")
    a = ap.parse_args()
    meta = json.load(open(os.path.join(a.dir, "meta.json")))
    props = (a.props.split(",") if a.props else [meta["property"]])
    root = tempfile.mkdtemp(prefix="pvseed-")
    res = {"demo_clean": None, "patch_applies": None, "demo_patched": None, "suite_patched": None, "checks": {}}
    try:
        clean, patched = os.path.join(root, "clean"), os.path.join(root, "patched")
        copy_repo(clean)
        copy_repo(patched)
        env = dict(os.environ, PYTHONDONTWRITEBYTECODE="1", PYTHONHASHSEED="0")
        rc, out = run([PY, os.path.abspath(os.path.join(a.dir, "demo.py"))], cwd=root, env=dict(env, PYTHONPATH=clean))
        res["demo_clean"] = rc
        rc, out = run(["patch", "-p1", "--no-backup-if-mismatch", "-i", os.path.abspath(os.path.join(a.dir, "patch.diff"))], cwd=patched)
        res["patch_applies"] = rc == 0
        if rc != 0:
            print(out[-800:])
        else:
            rc, out = run([PY, os.path.abspath(os.path.join(a.dir, "demo.py"))], cwd=root, env=dict(env, PYTHONPATH=patched))
            res["demo_patched"] = rc
            res["demo_output"] = out[-400:]
            if not a.skip_suite:
                rc, out = run([PY, "-m", "pytest", "-q", "-p", "no:cacheprovider", "--timeout=900", "petl"], cwd=patched,
                              env=dict(env, PYTHONPATH=patched))
                res["suite_patched"] = out.strip().splitlines()[-1] if out.strip() else "rc=%d" % rc
            for p in props:
                rc, out = run([os.path.join(HERE, "check"), p, "--tier", a.tier, "--no-evidence", "--no-shrink"],
                              env=dict(env, PETL_REPO=patched, PV_NPROC="8"))
                lines = [ln for ln in out.splitlines() if "bucket" in ln or "HARNESS" in ln or ("regress" in ln and "fails" in ln)]
                import re
                counts = [int(x) for ln in out.splitlines() if "  bucket " in ln for x in re.findall(r"\(x(\d+)\):", ln)[:1]]
                res["checks"][p] = {"exit": rc, "verdict": {0: "MISSED", 1: "caught", 2: "harness-error"}.get(rc, str(rc)),
                                    "first": [ln.strip()[:300] for ln in lines[:2]],
                                    # robustness of the detection: failure buckets, failing generated cases, pinned cases failing
                                    "buckets": len(counts), "failing_cases": sum(counts),
                                    "regress_failing": sum(1 for ln in out.splitlines() if "regress" in ln and "fails" in ln)}
    finally:
        shutil.rmtree(root, ignore_errors=True)
    ok = res["demo_clean"] == 0 and res["patch_applies"] and res["demo_patched"] not in (0, None) and (
        a.skip_suite or (res["suite_patched"] or "").startswith("481 passed"))
    res["confirmed"] = bool(ok)
    print(json.dumps(res, indent=1))
    if a.keep and ok:
        sid = a.id or (meta["property"] + "-" + os.path.basename(os.path.normpath(a.dir)))
        dst = os.path.join(HERE, "seeded", sid)
        os.makedirs(dst, exist_ok=True)
        if os.path.realpath(a.dir) != os.path.realpath(dst):
            shutil.copy(os.path.join(a.dir, "patch.diff"), dst)
            shutil.copy(os.path.join(a.dir, "demo.py"), dst)
        meta["breaks_property"] = meta.get("property")
        prev_suite = (meta.get("confirmed") or {}).get("baseline_suite_with_change")
        meta["confirmed"] = {"demo_exit_unchanged": res["demo_clean"], "demo_exit_with_change": res["demo_patched"],
                             # (a re-confirmation may skip the suite: the patch is unchanged, the earlier result stands)
                             "baseline_suite_with_change": res["suite_patched"] if res["suite_patched"] is not None else prev_suite,
                             "ran": "tools/seedtest.py (scratch copies of /repo; demo.py with and without the patch; baseline suite with the patch; ./check <id> --tier %s against the patched copy)" % a.tier}
        meta["checks"] = res["checks"]
        with open(os.path.join(dst, "meta.json"), "w") as f:
            json.dump(meta, f, indent=1)
            f.write("\n")
        print("kept as", dst)
    return 0 if ok else 1


if __name__ == "__main__":
    sys.exit(main())
