#!/usr/bin/env python3
"""usage: tools/sethistory.py <seeded id> <text>   record in seeded/<id>/meta.json how a check had to be strengthened"""
import json, sys
p = '/verif/seeded/%s/meta.json' % sys.argv[1]
d = json.load(open(p))
d['history'] = sys.argv[2]
json.dump(d, open(p, 'w'), indent=1)
open(p, 'a').write('\n')
