#!/usr/bin/env python3
"""Split a unified diff into hunks; print an index, or emit a patch of selected hunks.
usage: splitdiff.py DIFF            -> list hunks
       splitdiff.py DIFF 3 4 7      -> patch with those hunks on stdout"""
import re, sys
lines = open(sys.argv[1]).read().splitlines(keepends=True)
files = []  # (header_lines, [hunks])
cur = None
i = 0
while i < len(lines):
    l = lines[i]
    if l.startswith('diff --git'):
        hdr = [l]; i += 1
        while not lines[i].startswith('@@'):
            hdr.append(lines[i]); i += 1
        cur = (hdr, []); files.append(cur); continue
    if l.startswith('@@'):
        h = [l]; i += 1
        while i < len(lines) and not lines[i].startswith('@@') and not lines[i].startswith('diff --git'):
            h.append(lines[i]); i += 1
        cur[1].append(h); continue
    i += 1
idx = 0
sel = set(map(int, sys.argv[2:]))
out = []
for hdr, hunks in files:
    chosen = []
    for h in hunks:
        if not sel:
            first = next((x for x in h[1:] if x[0] in '+-'), '').rstrip()
            print(idx, hdr[0].split()[-1], h[0].strip()[:60], '|', first[:70])
        elif idx in sel:
            chosen.append(h)
        idx += 1
    if chosen:
        out.extend(hdr)
        for h in chosen: out.extend(h)
sys.stdout.write(''.join(out))
