#!/bin/bash
# usage: tools/sweep.sh [--tier quick|thorough] SEED...   runs every claimed check once per seed (no evidence written)
tier=quick
if [ "$1" = "--tier" ]; then tier=$2; shift 2; fi
cd "$(dirname "$0")/.."
for seed in "$@"; do
  for p in C01 C02 C03 C04 C05 C06 C07 C08 C09 C10 C11 C12 C13 C14 C15 C16 C17 C18 C19 C20; do
    out=$(VERIF_SEED=$seed ./check $p --tier $tier --no-evidence 2>&1); rc=$?
    echo "seed=$seed $p rc=$rc $(echo "$out" | tail -1)"
    if [ $rc -ne 0 ]; then echo "$out" | grep -E "VIOLATION|HARNESS|bucket|minimal" | cut -c1-600; fi
  done
done
